package props

import (
	"encoding/json"
	"fmt"
	"regexp"
	"sort"
	"strings"

	"verifharness/internal/core"
	"verifharness/internal/dump"
	"verifharness/internal/yang"
)

// C12: uses, refine and augment expand to the equivalent inline definition.
// Translation comparison: the generated (factored) module set and its
// source-level expansion (harness/internal/yang/inline.go) are both compiled
// by the real compiler and their canonical dumps compared.
type c12 struct{ base }

func init() {
	core.Register(&c12{base: base{
		id: "C12",
		rule: "cases = generated module sets (1-4 modules) with groupings (nested uses, cross-module uses, uses inside containers, lists, choices and cases), refine statements " +
			"(description, reference, default, mandatory, presence, must, min/max-elements), augment inside uses, module-level augment into the own and into imported modules, " +
			"when / if-feature / status on uses and augment, diamond use of one grouping through two others; the harness expands every uses/refine/augment at source level and both " +
			"texts are compiled with the same random subset of enabled features: the canonical dumps must be equal after the namespace/module of augmenting nodes is mapped to the " +
			"augmenting module (asserted separately on the factored dump); injected sibling name clashes must be rejected; distinct_nontrivial = distinct factored texts with at least one uses or augment",
		block: 8,
		assumptions: []string{
			"the source-level expander (inline.go) implements RFC 6020 7.12 / 7.15: clone the grouping's data definitions, apply refine and uses-augment, copy when/if-feature/status of the uses or augment onto every node it introduces",
			"XPath expressions inside groupings carry no prefixes here (prefix scope is C15's subject); the evaluation context of an augment's when (RunAsParent) is compared as a flag only",
		},
		minEvents: []string{"pairs_compiled", "uses_expanded", "refines_applied", "module_augments_applied", "uses_augments_applied", "dumps_compared", "clash_sets"},
	}})
}

func (p *c12) NumCases(tier string, seed int64) int { return tierN(tier, 4000, 160000) }

func c12Cfg(r *core.Rng) yang.GenCfg {
	cfg := yang.DefaultGenCfg()
	cfg.Modules = r.Range(1, 4)
	cfg.Groupings = r.Range(1, 4)
	cfg.UsesExtras = true
	cfg.NoPrefixedXPath = true
	cfg.NoLeafref = false
	cfg.MaxDepth = 3
	return cfg
}

type c12Case struct {
	ms    *yang.ModSet
	clash bool
}

func c12Gen(seed int64, idx int) c12Case {
	r := core.CaseRng(seed, "C12", idx)
	ms := yang.GenSchemaSet(r, c12Cfg(r))
	c := c12Case{ms: ms}
	m := ms.Mods[0]
	switch idx % 10 {
	case 3:
		// diamond: a uses b and c, both use d directly
		m.Add(yang.S("grouping", "dia-d", yang.S("leaf", "dd", yang.S("type", "string"))),
			yang.S("grouping", "dia-b", yang.S("container", "db", yang.S("uses", "dia-d"))),
			yang.S("grouping", "dia-c", yang.S("container", "dc", yang.S("uses", "dia-d"))),
			yang.S("grouping", "dia-a", yang.S("uses", "dia-b"), yang.S("uses", "dia-c")),
			yang.S("container", "dia-use", yang.S("uses", "dia-a")))
		yang.SortSections(m)
	case 4:
		// diamond with direct uses at the top of the groupings
		m.Add(yang.S("grouping", "dia-d", yang.S("leaf", "dd", yang.S("type", "string"))),
			yang.S("grouping", "dia-b", yang.S("uses", "dia-d"), yang.S("leaf", "bb", yang.S("type", "int8"))),
			yang.S("grouping", "dia-c", yang.S("container", "dc", yang.S("uses", "dia-d"))),
			yang.S("grouping", "dia-a", yang.S("uses", "dia-b"), yang.S("uses", "dia-c")),
			yang.S("container", "dia-use", yang.S("uses", "dia-a")))
		yang.SortSections(m)
	case 7:
		// sibling clash introduced by uses / augment
		c.clash = true
		switch (idx / 10) % 3 {
		case 0:
			m.Add(yang.S("grouping", "clg", yang.S("leaf", "same", yang.S("type", "string"))),
				yang.S("container", "cl-use", yang.S("leaf", "same", yang.S("type", "int8")), yang.S("uses", "clg")))
		case 1:
			m.Add(yang.S("grouping", "clg", yang.S("leaf", "same", yang.S("type", "string"))),
				yang.S("container", "cl-use", yang.S("uses", "clg"), yang.S("uses", "clg")))
		default:
			pf := m.Find("prefix").Arg
			m.Add(yang.S("container", "cl-use", yang.S("leaf", "same", yang.S("type", "int8"))),
				yang.S("augment", "/"+pf+":cl-use", yang.S("leaf", "same", yang.S("type", "string"))))
		}
		yang.SortSections(m)
	}
	return c
}

func textsString(texts map[string]string) string {
	var names []string
	for n := range texts {
		names = append(names, n)
	}
	sort.Strings(names)
	var b strings.Builder
	for _, n := range names {
		fmt.Fprintf(&b, "---- %s\n%s", n, texts[n])
	}
	return b.String()
}

func (p *c12) Describe(tier string, seed int64, idx int) string {
	return textsString(c12Gen(seed, idx).ms.Texts(nil))
}

var nsAttrRe = regexp.MustCompile(`^ns=(\S*) module=(\S*) submodule=(\S*)$`)
var runAsParentRe = regexp.MustCompile(`runAsParent=(true|false)`)

func (p *c12) Run(tier string, seed int64, idx int) core.CaseResult {
	var res core.CaseResult
	c := c12Gen(seed, idx)
	r := core.CaseRng(seed, "C12f", idx)
	var feats []string
	for _, f := range c.ms.Features {
		if r.Chance(2, 3) {
			feats = append(feats, f)
		}
	}
	ftexts := c.ms.Texts(nil)
	input := fmt.Sprintf("features=%v\n%s", feats, textsString(ftexts))
	fr := compileTexts(ftexts, nil, feats, nil, true)
	res.Ev("pairs_compiled", 1)
	if fr.Panic != "" {
		res.Fail("C12/panic/"+core.TopRepoFrame(fr.Stack), input, fr.Panic)
		return res
	}
	if fr.ParseErr != "" {
		res.Fail("harness-panic", input, "generated text does not parse: "+fr.ParseErr)
		return res
	}
	if c.clash {
		res.Ev("clash_sets", 1)
		if fr.Accepted() {
			res.Fail("C12/sibling-clash-accepted", input, "a name clash among the siblings introduced by uses/augment compiled")
		}
		return res
	}
	inl, info := yang.Inline(c.ms)
	if len(info.Errs) > 0 {
		res.Fail("harness-panic", input, "inliner: "+strings.Join(info.Errs, "; "))
		return res
	}
	res.Ev("uses_expanded", int64(info.NUses))
	res.Ev("refines_applied", int64(info.NRefines))
	res.Ev("uses_augments_applied", int64(info.NUsesAugments))
	res.Ev("module_augments_applied", int64(info.NAugments))
	res.Ev("nested_uses", int64(info.NNested))
	if info.NUses+info.NAugments > 0 {
		res.Key(input)
	}
	itexts := inl.Texts(nil)
	ir := compileTexts(itexts, nil, feats, nil, true)
	both := input + "\n======== inlined ========\n" + textsString(itexts)
	if ir.Panic != "" || ir.ParseErr != "" {
		res.Fail("C12/inlined-form-crashes", both, ir.Panic+ir.ParseErr)
		return res
	}
	if fr.Accepted() != ir.Accepted() {
		res.Fail("C12/verdict-differs", both, fmt.Sprintf("factored: %s (%s)\ninlined: %s (%s)", fr.Verdict(), fr.Err, ir.Verdict(), ir.Err))
		return res
	}
	if !fr.Accepted() {
		res.Ev("pairs_rejected_by_both", 1)
		res.Fail("C12/valid-set-rejected", both, fr.Err)
		return res
	}
	// nodes introduced by module-level augments: namespace/module of the augmenting module
	augNS := func(d *dump.DNode, path []string) (string, bool) {
		for i := len(path) - 1; i >= 0; i-- {
			name := path[i][strings.Index(path[i], ":")+1:]
			if mod, ok := info.AugmentedBy[name]; ok {
				return mod, true
			}
		}
		return "", false
	}
	// assertion on the factored dump
	fr.DumpRoot.Walk(func(n *dump.DNode, path []string) {
		if mod, ok := augNS(n, path); ok {
			for _, a := range n.Attrs {
				if m := nsAttrRe.FindStringSubmatch(a); m != nil {
					if m[1] != "urn:verif:"+mod || m[2] != mod {
						res.Fail("C12/augmenting-node-namespace", both, fmt.Sprintf("node %s was introduced by an augment of module %s but has %s", strings.Join(path, "/"), mod, a))
					}
				}
			}
		}
	})
	norm := func(root *dump.DNode) string {
		paths := map[*dump.DNode][]string{}
		root.Walk(func(n *dump.DNode, path []string) { paths[n] = path })
		return root.StringWith(func(n *dump.DNode, a string) string {
			if nsAttrRe.MatchString(a) {
				if mod, ok := augNS(n, paths[n]); ok {
					return "ns=<augmenting module " + mod + ">"
				}
			}
			if strings.HasPrefix(a, "when ") {
				return runAsParentRe.ReplaceAllString(a, "runAsParent=*")
			}
			return a
		})
	}
	res.Ev("dumps_compared", 1)
	fd, id := norm(fr.DumpRoot), norm(ir.DumpRoot)
	if fd != id {
		res.Fail("C12/schema-differs-from-inline-definition", both, firstDiff(id, fd)+"\n(- inlined, + factored)")
	}
	if idx%151 == 0 {
		res.Sample = map[string]interface{}{"modules": len(c.ms.Mods), "uses": info.NUses, "refines": info.NRefines, "uses_augments": info.NUsesAugments,
			"module_augments": info.NAugments, "dump_nodes": fr.DumpRoot.Count()}
	}
	return res
}

func (p *c12) Witness(raw json.RawMessage) []core.Failure { return nil }

// Shrink: developer tool.
func (p *c12) Shrink(tier string, seed int64, idx int, match string) string {
	c := c12Gen(seed, idx)
	small := shrinkSet(c.ms, func(ms *yang.ModSet) bool {
		return errContains(ms.Texts(nil), c.ms.Features, match)
	})
	return textsString(small.Texts(nil))
}
