package props

import (
	"github.com/sdcio/yang-parser/schema"
	"encoding/json"
	"fmt"
	"regexp"
	"sort"
	"strings"

	"verifharness/internal/core"
	"verifharness/internal/dump"
	"verifharness/internal/yang"
)

// C12: uses, refine and augment expand to the equivalent inline definition.
// Translation comparison: the generated (factored) module set and its
// source-level expansion (harness/internal/yang/inline.go) are both compiled
// by the real compiler and their canonical dumps compared.
type c12 struct{ base }

func init() {
	core.Register(&c12{base: base{
		id: "C12",
		rule: "cases = generated module sets (1-4 modules) with groupings (nested uses, cross-module uses, uses inside containers, lists, choices and cases), refine statements " +
			"(description, reference, default, mandatory, presence, must, min/max-elements), augment inside uses, module-level augment into the own and into imported modules, " +
			"when / if-feature / status on uses and augment, diamond use of one grouping through two others; the harness expands every uses/refine/augment at source level and both " +
			"texts are compiled with the same random subset of enabled features: the canonical dumps must be equal after the namespace/module of augmenting nodes is mapped to the " +
			"augmenting module (asserted separately on the factored dump); injected sibling name clashes must be rejected; in half of the cases the body statements of every module are " +
			"permuted (groupings after their first use), half of the groupings carry a description and reference of their own, one case in ten is a fixed two-module pair whose inline definition is written by hand " +
			"(a typedef named like a refined leaf, a uses inside a uses-augment that names a grouping existing in both modules, an augment from a submodule with its own belongs-to prefix), one case in ten is a fixed forward-reference nest (uses two and three levels inside a grouping that is defined after its use), and for one case " +
			"in three the self-contained groupings and typedefs of the first module are moved into a submodule it includes and the set is compiled again: nothing but the submodule attribution may change; distinct_nontrivial = distinct factored texts with at least one uses or augment",
		block: 8,
		assumptions: []string{
			"the source-level expander (inline.go) implements RFC 6020 7.12 / 7.15: clone the grouping's data definitions, apply refine and uses-augment, copy when/if-feature/status of the uses or augment onto every node it introduces",
			"XPath expressions inside groupings carry no prefixes here (prefix scope is C15's subject); the evaluation context of a when copied from a uses or an augment is asserted as the flag RunAsParent=true (RFC 6020 7.19.5), not by evaluating it",
		},
		minEvents: []string{"pairs_compiled", "uses_expanded", "refines_applied", "module_augments_applied", "uses_augments_applied", "dumps_compared", "clash_sets", "submodule_variants_compiled"},
	}})
}

func (p *c12) NumCases(tier string, seed int64) int { return tierN(tier, 4000, 160000) }

func c12Cfg(r *core.Rng) yang.GenCfg {
	cfg := yang.DefaultGenCfg()
	cfg.Modules = r.Range(1, 4)
	cfg.Groupings = r.Range(1, 4)
	cfg.UsesExtras = true
	cfg.NoPrefixedXPath = true
	cfg.NoLeafref = false
	cfg.MaxDepth = 3
	return cfg
}

type c12Case struct {
	ms      *yang.ModSet
	clash   bool
	inlined *yang.ModSet // hand-written inline definition (fixed cases); nil: use the source-level expander
	invalidRefine  string          // the set has a refine that must be refused (what is wrong with it)
	crossClash     bool            // the clash is between nodes of two modules (namespaces differ)
	expectStatus   map[string]int      // fixed cases: data path -> the status (0 current, 1 deprecated, 2 obsolete) the node states itself; whatever a uses / augment adds, the node is not less restricted
	expectWhens    map[string][]string // fixed cases: data path -> the when expressions the compiled node must carry (all run on the parent)
	augmentedBy    map[string]string // fixed cases: nodes that a module-level augment introduces, and the module that does
	inheritedWhens map[string]bool // fixed cases: the when expressions that stand on a uses / augment in the source
}

func c12Gen(seed int64, idx int) c12Case {
	r := core.CaseRng(seed, "C12", idx)
	ms := yang.GenSchemaSet(r, c12Cfg(r))
	c := c12Case{ms: ms}
	m := ms.Mods[0]
	switch idx % 10 {
	case 3:
		// diamond: a uses b and c, both use d directly
		m.Add(yang.S("grouping", "dia-d", yang.S("leaf", "dd", yang.S("type", "string"))),
			yang.S("grouping", "dia-b", yang.S("container", "db", yang.S("uses", "dia-d"))),
			yang.S("grouping", "dia-c", yang.S("container", "dc", yang.S("uses", "dia-d"))),
			yang.S("grouping", "dia-a", yang.S("uses", "dia-b"), yang.S("uses", "dia-c")),
			yang.S("container", "dia-use", yang.S("uses", "dia-a")))
		yang.SortSections(m)
	case 4:
		// diamond with direct uses at the top of the groupings
		m.Add(yang.S("grouping", "dia-d", yang.S("leaf", "dd", yang.S("type", "string"))),
			yang.S("grouping", "dia-b", yang.S("uses", "dia-d"), yang.S("leaf", "bb", yang.S("type", "int8"))),
			yang.S("grouping", "dia-c", yang.S("container", "dc", yang.S("uses", "dia-d"))),
			yang.S("grouping", "dia-a", yang.S("uses", "dia-b"), yang.S("uses", "dia-c")),
			yang.S("container", "dia-use", yang.S("uses", "dia-a")))
		// refines whose target is a choice (a default case, mandatory) or a case (a description)
		m.Add(yang.S("grouping", "rc-g",
			yang.S("choice", "rch", yang.S("case", "ca", yang.S("leaf", "ra", yang.S("type", "string"))), yang.S("case", "cb", yang.S("leaf", "rb", yang.S("type", "string")))),
			yang.S("choice", "rch2", yang.S("leaf", "rc", yang.S("type", "string")), yang.S("leaf", "rd", yang.S("type", "int8")))),
			yang.S("container", "rc-use", yang.S("uses", "rc-g", yang.S("refine", "rch", yang.S("default", "cb")), yang.S("refine", "rch2", yang.S("mandatory", "true")),
				yang.S("refine", "rch/ca", yang.S("description", "the first case")))))
		yang.SortSections(m)
	case 5:
		// forward references: the uses stands before the grouping it names, and that grouping reaches
		// further groupings two and three levels down (container > list > uses, choice > case > uses)
		m.Add(yang.S("container", "fw-use", yang.S("uses", "fw-outer", yang.S("refine", "fc/fl/fa", yang.S("default", "refined")))),
			yang.S("grouping", "fw-outer",
				yang.S("container", "fc", yang.S("list", "fl", yang.S("key", "fk"), yang.S("leaf", "fk", yang.S("type", "string")), yang.S("uses", "fw-inner"))),
				yang.S("choice", "fch", yang.S("case", "one", yang.S("container", "deep", yang.S("uses", "fw-inner2"))), yang.S("case", "two", yang.S("leaf", "t", yang.S("type", "int8"))))),
			yang.S("grouping", "fw-inner", yang.S("leaf", "fa", yang.S("type", "string")), yang.S("container", "fin", yang.S("uses", "fw-inner2"))),
			yang.S("grouping", "fw-inner2", yang.S("leaf", "fb", yang.S("type", "uint8"))))
		yang.SortSections(m)
		c12Shuffle(r, m, true)
	case 9:
		// status: a deprecated container uses a deprecated grouping whose nodes use further deprecated groupings,
		// directly, one and two levels down and inside an augment of the uses.  Every reference is from deprecated
		// to deprecated, wherever the statements stand in the module.
		dep := func() *yang.Stmt { return yang.S("status", "deprecated") }
		str := func(n string) *yang.Stmt { return yang.S("leaf", n, yang.S("type", "string")) }
		m.Add(yang.S("container", "st-top", dep(), yang.S("uses", "st-outer", yang.S("augment", "sc/sd", yang.S("uses", "st-leafs")))),
			yang.S("container", "st-top2", yang.S("uses", "st-outer", dep())),
			yang.S("grouping", "st-outer", dep(), yang.S("container", "sc", yang.S("uses", "st-leafs"), yang.S("container", "sd", str("in-sd"))),
				yang.S("list", "sl", yang.S("key", "k"), str("k"), yang.S("container", "deep", yang.S("uses", "st-inner")))),
			yang.S("grouping", "st-inner", dep(), str("si"), yang.S("uses", "st-leafs")),
			yang.S("grouping", "st-leafs", dep(), yang.S("leaf", "sx", yang.S("type", "int8"))))
		yang.SortSections(m)
		if (idx/10)%2 == 1 {
			c12Shuffle(r, m, true)
		}
	case 6:
		// groupings that define no node (an extension point with a description only, a grouping without a
		// body): their uses introduces nothing, whatever follows it — further uses, directly or inside the
		// next siblings — expands as if it were not there
		str := func(n string) *yang.Stmt { return yang.S("leaf", n, yang.S("type", "string")) }
		m.Add(yang.S("grouping", "eg-hooks", yang.S("description", "extension point")),
			yang.S("grouping", "eg-none"),
			yang.S("grouping", "eg-endpoint", str("ep"), yang.S("container", "epc", str("port"))),
			yang.S("grouping", "eg-outer", yang.S("uses", "eg-hooks"), yang.S("container", "gc", yang.S("uses", "eg-endpoint")), str("gl"), yang.S("uses", "eg-none"), yang.S("uses", "eg-endpoint")),
			yang.S("container", "eg-top", yang.S("uses", "eg-hooks"), yang.S("container", "server", yang.S("uses", "eg-endpoint")), str("name"),
				yang.S("uses", "eg-none"), yang.S("uses", "eg-endpoint"), str("after")),
			yang.S("list", "eg-list", yang.S("key", "k"), str("k"), yang.S("uses", "eg-none"), yang.S("uses", "eg-hooks"), yang.S("container", "c", yang.S("uses", "eg-endpoint")), str("z")),
			yang.S("container", "eg-use2", yang.S("uses", "eg-outer")),
			yang.S("container", "eg-ch", yang.S("choice", "ch", yang.S("case", "one", yang.S("uses", "eg-hooks"), yang.S("uses", "eg-endpoint"), str("c1")), yang.S("case", "two", yang.S("uses", "eg-none"), str("c2"), str("c3")))))
		yang.SortSections(m)
		if (idx/10)%2 == 1 {
			c12Shuffle(r, m, true)
		}
	case 8:
		if (idx/10)%8 == 4 {
			// augments whose target is a choice and that add cases in short form (a data node directly under
			// the augment), at module level and inside a uses: each added node is a case of its own
			head := func() *yang.Stmt {
				return yang.S("module", "fx-ch", yang.S("namespace", "urn:verif:fx-ch"), yang.S("prefix", "fc"))
			}
			str := func(n string) *yang.Stmt { return yang.S("leaf", n, yang.S("type", "string")) }
			src := head()
			src.Add(yang.S("container", "top", yang.S("choice", "ch", str("a"), yang.S("case", "named", str("n1")))),
				yang.S("augment", "/fc:top/fc:ch", str("b"), yang.S("container", "cb", str("x")), yang.S("case", "late", str("l1"))),
				yang.S("grouping", "g", yang.S("choice", "gch", str("g1"))),
				yang.S("container", "u", yang.S("uses", "g", yang.S("augment", "gch", str("g2"), yang.S("leaf-list", "g3", yang.S("type", "string"))))),
				// a uses one and two levels below a data node that the augment of a uses adds
				yang.S("grouping", "g2", yang.S("container", "gc", str("in-g2"))),
				yang.S("grouping", "h2", str("hh")),
				yang.S("container", "u2", yang.S("uses", "g2", yang.S("augment", "gc",
					yang.S("container", "x", yang.S("uses", "h2", yang.S("refine", "hh", yang.S("default", "d")))),
					yang.S("list", "y", yang.S("key", "k"), str("k"), yang.S("container", "deep", yang.S("uses", "h2")))))))
			inl := head()
			inl.Add(yang.S("container", "top", yang.S("choice", "ch", str("a"), yang.S("case", "named", str("n1")), str("b"), yang.S("container", "cb", str("x")), yang.S("case", "late", str("l1")))),
				yang.S("container", "u", yang.S("choice", "gch", str("g1"), str("g2"), yang.S("leaf-list", "g3", yang.S("type", "string")))),
				yang.S("container", "u2", yang.S("container", "gc", str("in-g2"),
					yang.S("container", "x", yang.S("leaf", "hh", yang.S("type", "string"), yang.S("default", "d"))),
					yang.S("list", "y", yang.S("key", "k"), str("k"), yang.S("container", "deep", str("hh"))))))
			c.ms = &yang.ModSet{Mods: []*yang.Stmt{src}}
			c.inlined = &yang.ModSet{Mods: []*yang.Stmt{inl}}
			return c
		}
		if (idx/10)%8 == 5 {
			// a second module augments a choice with nodes in short form: each stands in a case of its own, and that
			// case is as much a node of the augmenting module as one written out with the case keyword
			str := func(n string) *yang.Stmt { return yang.S("leaf", n, yang.S("type", "string")) }
			target := func() *yang.Stmt {
				return yang.S("module", "fx-ca", yang.S("namespace", "urn:verif:fx-ca"), yang.S("prefix", "ca"),
					yang.S("container", "top", yang.S("choice", "ch", str("x"), yang.S("case", "named", str("n1")))),
					yang.S("grouping", "gch", yang.S("choice", "gc", str("g1"))))
			}
			aug := func(explicit bool) *yang.Stmt {
				wrap := func(n *yang.Stmt) *yang.Stmt {
					if explicit {
						return yang.S("case", n.Arg, n)
					}
					return n
				}
				return yang.S("module", "fx-cb", yang.S("namespace", "urn:verif:fx-cb"), yang.S("prefix", "cb"), yang.S("import", "fx-ca", yang.S("prefix", "ca")),
					yang.S("augment", "/ca:top/ca:ch", wrap(str("sh")), wrap(yang.S("container", "shc", str("y"))), wrap(yang.S("leaf-list", "shl", yang.S("type", "string"))),
						yang.S("case", "late", str("l1"))),
					yang.S("container", "user", yang.S("uses", "ca:gch", yang.S("augment", "gc", wrap(str("g2")), wrap(yang.S("list", "g3", yang.S("key", "k"), str("k")))))))
			}
			c.ms = &yang.ModSet{Mods: []*yang.Stmt{target(), aug(false)}}
			c.inlined = &yang.ModSet{Mods: []*yang.Stmt{target(), aug(true)}}
			c.augmentedBy = map[string]string{"sh": "fx-cb", "shc": "fx-cb", "shl": "fx-cb", "late": "fx-cb", "l1": "fx-cb", "y": "fx-cb"}
			return c
		}
		if (idx/10)%8 == 7 {
			// groupings defined in a container and in a list of a SUBMODULE, used where they are defined (a grouping
			// is looked up from the scope of its uses outwards, in a submodule as in a module)
			str := func(n string) *yang.Stmt { return yang.S("leaf", n, yang.S("type", "string")) }
			mod := func() *yang.Stmt {
				// (the module and its submodule bind the prefix b to different modules, and both write augment paths with it)
				return yang.S("module", "fx-sm", yang.S("namespace", "urn:verif:fx-sm"), yang.S("prefix", "sm"), yang.S("import", "fx-ta", yang.S("prefix", "b")), yang.S("include", "fx-sm-sub"),
					yang.S("container", "in-module", str("m1")),
					yang.S("augment", "/b:top1", str("from-mod")), yang.S("augment", "/b:top1/b:sys", str("from-mod-deeper")))
			}
			ta := yang.S("module", "fx-ta", yang.S("namespace", "urn:verif:fx-ta"), yang.S("prefix", "ta"), yang.S("container", "top1", str("a1"), yang.S("container", "sys", str("a2"))))
			tb := yang.S("module", "fx-tb", yang.S("namespace", "urn:verif:fx-tb"), yang.S("prefix", "tb"), yang.S("container", "top2", str("b1"), yang.S("container", "sys", str("b2"))))
			sub := func(inline bool) *yang.Stmt {
				s := yang.S("submodule", "fx-sm-sub", yang.S("belongs-to", "fx-sm", yang.S("prefix", "sm")), yang.S("import", "fx-tb", yang.S("prefix", "b")),
					yang.S("augment", "/b:top2/b:sys", str("from-sub")), yang.S("augment", "/b:top2", str("from-sub-higher")))
				if inline {
					s.Add(yang.S("container", "sc", str("x"), yang.S("container", "xc", str("deep")), str("own")),
						yang.S("list", "sl", yang.S("key", "k"), str("k"), str("y")),
						// (what the uses at the top of the submodule introduces, its augment applied once)
						yang.S("container", "tc", str("sel"), yang.S("leaf", "ty", yang.S("type", "string"), yang.S("when", "sel = 'a'"))))
				} else {
					s.Add(yang.S("container", "sc", yang.S("grouping", "g", str("x"), yang.S("container", "xc", str("deep"))), yang.S("uses", "g"), str("own")),
						yang.S("list", "sl", yang.S("key", "k"), str("k"), yang.S("grouping", "g2", str("y")), yang.S("uses", "sm:g2")),
						yang.S("grouping", "tg", yang.S("container", "tc", str("sel"))),
						yang.S("uses", "tg", yang.S("augment", "tc", yang.S("when", "sel = 'a'"), str("ty"))))
				}
				return s
			}
			c.ms = &yang.ModSet{Mods: []*yang.Stmt{mod(), sub(false), ta, tb}}
			c.inlined = &yang.ModSet{Mods: []*yang.Stmt{mod(), sub(true), ta.Clone(), tb.Clone()}}
			for _, ms := range []*yang.ModSet{c.ms, c.inlined} {
				yang.SortSections(ms.Mods[0])
				yang.SortSections(ms.Mods[1])
			}
			// (what Module() says of a node written in a submodule is not asserted)
			c.augmentedBy = map[string]string{"from-mod": "fx-sm", "from-mod-deeper": "fx-sm"}
			c.inheritedWhens = map[string]bool{"sel = 'a'": true}
			return c
		}
		if (idx/10)%8 == 6 {
			// a when on a uses whose grouping uses another grouping with a when of its own (and the same with an augment
			// in between): a node of the inner grouping is there only if both hold.  No single module text can say that
			// with when statements (a node takes one), so the expectation is stated on the compiled node.
			str := func(n string) *yang.Stmt { return yang.S("leaf", n, yang.S("type", "string")) }
			src := yang.S("module", "fx-ww", yang.S("namespace", "urn:verif:fx-ww"), yang.S("prefix", "ww"),
				yang.S("container", "top", str("sel"), str("selb"), yang.S("uses", "outer", yang.S("when", "sel = 'a'"))),
				yang.S("grouping", "outer", yang.S("uses", "inner", yang.S("when", "selb = 'b'")), str("o1")),
				yang.S("grouping", "inner", str("i1"), yang.S("container", "ic", str("deep"))),
				yang.S("container", "top2", str("sel"), str("selb")),
				yang.S("augment", "/ww:top2", yang.S("when", "sel = 'x'"), yang.S("uses", "inner", yang.S("when", "selb = 'y'"))))
			// nodes that state a status themselves, brought in by a uses / augment that states another one: both
			// apply, so the node is at least as restricted as it says itself
			stl := func(n, st string) *yang.Stmt { return yang.S("leaf", n, yang.S("type", "string"), yang.S("status", st)) }
			src.Add(yang.S("grouping", "st", stl("old", "obsolete"), stl("dep", "deprecated"), str("plain"),
				yang.S("container", "oc", yang.S("status", "obsolete"), str("x"))),
				yang.S("grouping", "st-outer", yang.S("uses", "st", yang.S("status", "deprecated")), stl("oold", "obsolete")),
				yang.S("container", "top3", yang.S("uses", "st", yang.S("status", "deprecated"))),
				yang.S("container", "top4", yang.S("uses", "st-outer", yang.S("status", "current"))),
				yang.S("container", "top5", str("own")),
				yang.S("augment", "/ww:top5", yang.S("status", "deprecated"), stl("aold", "obsolete"), str("aplain"), yang.S("uses", "st", yang.S("status", "deprecated"))))
			c.expectStatus = map[string]int{"top3/old": 2, "top3/dep": 1, "top3/plain": 1, "top3/oc": 2, "top3/oc/x": 2,
				"top4/old": 2, "top4/dep": 1, "top4/plain": 1, "top4/oold": 2, "top5/aold": 2, "top5/aplain": 1, "top5/old": 2, "top5/plain": 1, "top5/own": 0}
			c.ms = &yang.ModSet{Mods: []*yang.Stmt{src}}
			c.expectWhens = map[string][]string{
				"top/i1": {"sel = 'a'", "selb = 'b'"}, "top/ic": {"sel = 'a'", "selb = 'b'"}, "top/o1": {"sel = 'a'"}, "top/ic/deep": {},
				"top2/i1": {"sel = 'x'", "selb = 'y'"}, "top2/ic": {"sel = 'x'", "selb = 'y'"},
			}
			if (idx/80)%2 == 1 {
				c12Shuffle(r, src, true)
			}
			return c
		}
		if (idx/10)%8 == 3 {
			// context node of a when written on a uses, and on an augment inside that uses whose body
			// holds a further uses: every introduced node carries the when, to be run on its parent
			head := func() *yang.Stmt {
				return yang.S("module", "fx-wh", yang.S("namespace", "urn:verif:fx-wh"), yang.S("prefix", "wh"))
			}
			str := func(n string, kids ...*yang.Stmt) *yang.Stmt {
				return yang.S("leaf", n, append([]*yang.Stmt{yang.S("type", "string")}, kids...)...)
			}
			src := head()
			src.Add(yang.S("container", "top", str("sel"),
				yang.S("uses", "g", yang.S("when", "sel = 'a'"),
					yang.S("augment", "c", yang.S("when", "sel2 = 'b'"), str("y"), yang.S("uses", "g2")))),
				yang.S("grouping", "g", yang.S("container", "c", str("sel2")), str("lf")),
				yang.S("grouping", "g2", str("z")))
			inl := head()
			inl.Add(yang.S("container", "top", str("sel"),
				yang.S("container", "c", yang.S("when", "sel = 'a'"), str("sel2"), str("y", yang.S("when", "sel2 = 'b'")), str("z", yang.S("when", "sel2 = 'b'"))),
				str("lf", yang.S("when", "sel = 'a'"))))
			c.ms = &yang.ModSet{Mods: []*yang.Stmt{src}}
			c.inlined = &yang.ModSet{Mods: []*yang.Stmt{inl}}
			c.inheritedWhens = map[string]bool{"sel = 'a'": true, "sel2 = 'b'": true}
			return c
		}
		if (idx/10)%8 == 2 {
			// two different groupings named x in disjoint scopes, one reached from the other: x (in a1) uses y,
			// y contains its own x and uses it.  No grouping refers to itself.
			head := func() *yang.Stmt {
				return yang.S("module", "fx-hs", yang.S("namespace", "urn:verif:fx-hs"), yang.S("prefix", "hs"))
			}
			src := head()
			src.Add(yang.S("container", "a", yang.S("container", "a1", yang.S("grouping", "x", yang.S("uses", "y")), yang.S("uses", "x"))),
				yang.S("grouping", "y", yang.S("container", "inner", yang.S("grouping", "x", yang.S("leaf", "l", yang.S("type", "string"))), yang.S("uses", "x"))))
			inl := head()
			inl.Add(yang.S("container", "a", yang.S("container", "a1", yang.S("container", "inner", yang.S("leaf", "l", yang.S("type", "string"))))))
			c.ms = &yang.ModSet{Mods: []*yang.Stmt{src}}
			c.inlined = &yang.ModSet{Mods: []*yang.Stmt{inl}}
			return c
		}
		// fixed two-module pair with its inline definition written by hand: what belongs to the grouping
		// itself (description, reference, a typedef named like one of its leaves) and what is written
		// inside a uses (a refine of that leaf, an augment that uses a grouping of the using module whose
		// name also exists in the defining module)
		lib := yang.S("module", "fx-lib", yang.S("namespace", "urn:verif:fx-lib"), yang.S("prefix", "fl"),
			yang.S("grouping", "g", yang.S("description", "the grouping g"), yang.S("reference", "ref of g"),
				// (groupings nested in g that are named like its nodes and written before them: a refine or an
				// augment of a uses of g names nodes, never definitions)
				yang.S("grouping", "c", yang.S("leaf", "in-grouping-c", yang.S("type", "string"))),
				yang.S("grouping", "x", yang.S("leaf", "in-grouping-x", yang.S("type", "string"))),
				yang.S("typedef", "x", yang.S("type", "string", yang.S("length", "1..9"))),
				yang.S("leaf", "x", yang.S("type", "x"), yang.S("must", "count(../fl:c/fl:in-lib) >= 0 or ../c/in-lib")),
				yang.S("container", "c", yang.S("leaf", "in-lib", yang.S("type", "string"), yang.S("when", "../../fl:x != 'off'")))),
			yang.S("grouping", "h", yang.S("leaf", "h-of-lib", yang.S("type", "string"))))
		user := yang.S("module", "fx-user", yang.S("namespace", "urn:verif:fx-user"), yang.S("prefix", "fu"), yang.S("import", "fx-lib", yang.S("prefix", "fl")),
			yang.S("grouping", "h", yang.S("description", "the grouping h"), yang.S("leaf", "h-of-user", yang.S("type", "int8"))),
			yang.S("container", "fx-top", yang.S("description", "the container"),
				yang.S("uses", "fl:g", yang.S("refine", "x", yang.S("default", "five")), yang.S("augment", "c", yang.S("uses", "h"))),
				yang.S("container", "plain", yang.S("uses", "h"))))
		inl := yang.S("module", "fx-user", yang.S("namespace", "urn:verif:fx-user"), yang.S("prefix", "fu"), yang.S("import", "fx-lib", yang.S("prefix", "fl")),
			yang.S("container", "fx-top", yang.S("description", "the container"),
				yang.S("leaf", "x", yang.S("type", "fl:x"), yang.S("default", "five"), yang.S("must", "count(../fl:c/fl:in-lib) >= 0 or ../c/in-lib")),
				yang.S("container", "c", yang.S("leaf", "in-lib", yang.S("type", "string"), yang.S("when", "../../fl:x != 'off'")), yang.S("leaf", "h-of-user", yang.S("type", "int8"))),
				yang.S("container", "plain", yang.S("leaf", "h-of-user", yang.S("type", "int8")))))
		c.ms = &yang.ModSet{Mods: []*yang.Stmt{user, lib}}
		// (in the inline form the typedef of g stands at the top of its module, where the leaf can name it)
		libInl := yang.S("module", "fx-lib", yang.S("namespace", "urn:verif:fx-lib"), yang.S("prefix", "fl"),
			yang.S("typedef", "x", yang.S("type", "string", yang.S("length", "1..9"))),
			yang.S("grouping", "h", yang.S("leaf", "h-of-lib", yang.S("type", "string"))))
		c.inlined = &yang.ModSet{Mods: []*yang.Stmt{inl, libInl}}
		if (idx/10)%8 == 1 {
			c12Shuffle(r, user, true)
		}
		return c
	case 7:
		// sibling clash introduced by uses / augment
		c.clash = true
		switch (idx / 10) % 10 {
		case 8, 9:
			// a refine that says the same single-valued property twice: written in place, the node would have the
			// statement twice, which no node may
			dups := [][3]string{{"x", "default", "1|2"}, {"x", "mandatory", "true|false"}, {"c", "presence", "p1|p2"}, {"c", "config", "true|false"}, {"x", "description", "one|two"},
				{"li", "min-elements", "1|2"}, {"ll", "max-elements", "3|4"}, {"x", "reference", "r1|r2"}, {"x", "config", "true|true"}, {"li", "max-elements", "2|2"}}
			d := dups[(idx/100)%len(dups)]
			vals := strings.Split(d[2], "|")
			m.Add(yang.S("grouping", "rfg", yang.S("leaf", "x", yang.S("type", "uint8")), yang.S("container", "c", yang.S("leaf", "in-c", yang.S("type", "string"))),
				yang.S("list", "li", yang.S("key", "k"), yang.S("leaf", "k", yang.S("type", "string"))), yang.S("leaf-list", "ll", yang.S("type", "string"))),
				yang.S("container", "rf-use", yang.S("uses", "rfg", yang.S("refine", d[0], yang.S(d[1], vals[0]), yang.S(d[1], vals[1])))))
			c.invalidRefine = fmt.Sprintf("two-%s-statements-in-one-refine", d[1])
		case 7:
			// an augment from another module adds a node named like a child of its target: the names differ by
			// namespace, so this is refused or both nodes exist — the target's own child is never replaced
			pa := m.Find("prefix").Arg
			m.Add(yang.S("container", "cl-use", yang.S("leaf", "same", yang.S("type", "int8")), yang.S("leaf", "other", yang.S("type", "string"))))
			ms.Mods = append(ms.Mods, yang.S("module", "cl-aug", yang.S("namespace", "urn:verif:cl-aug"), yang.S("prefix", "cla"),
				yang.S("import", m.Arg, yang.S("prefix", pa)),
				yang.S("augment", "/"+pa+":cl-use", yang.S("leaf", "same", yang.S("type", "string")))))
			c.crossClash = true
		case 3:
			// a choice shares the identifier namespace of its sibling data nodes (RFC 6020 6.2.1)
			m.Add(yang.S("grouping", "clg", yang.S("choice", "same", yang.S("leaf", "inner", yang.S("type", "string")))),
				yang.S("container", "cl-use", yang.S("uses", "clg"), yang.S("leaf", "same", yang.S("type", "int8"))))
		case 4:
			m.Add(yang.S("grouping", "clg", yang.S("choice", "same", yang.S("leaf", "inner", yang.S("type", "string")))),
				yang.S("container", "cl-use", yang.S("leaf", "same", yang.S("type", "int8")), yang.S("uses", "clg")))
		case 5:
			m.Add(yang.S("grouping", "clg", yang.S("container", "same")),
				yang.S("container", "cl-use", yang.S("choice", "same", yang.S("leaf", "inner", yang.S("type", "string"))), yang.S("uses", "clg")))
		case 6:
			pf := m.Find("prefix").Arg
			m.Add(yang.S("container", "cl-use", yang.S("leaf", "same", yang.S("type", "int8"))),
				yang.S("augment", "/"+pf+":cl-use", yang.S("choice", "same", yang.S("leaf", "inner", yang.S("type", "string")))))
		case 0:
			m.Add(yang.S("grouping", "clg", yang.S("leaf", "same", yang.S("type", "string"))),
				yang.S("container", "cl-use", yang.S("leaf", "same", yang.S("type", "int8")), yang.S("uses", "clg")))
		case 1:
			m.Add(yang.S("grouping", "clg", yang.S("leaf", "same", yang.S("type", "string"))),
				yang.S("container", "cl-use", yang.S("uses", "clg"), yang.S("uses", "clg")))
		default:
			pf := m.Find("prefix").Arg
			m.Add(yang.S("container", "cl-use", yang.S("leaf", "same", yang.S("type", "int8"))),
				yang.S("augment", "/"+pf+":cl-use", yang.S("leaf", "same", yang.S("type", "string"))))
		}
		yang.SortSections(m)
	}
	// what describes a grouping itself (description, reference) is not part of what it defines
	for _, mod := range ms.Mods {
		mod.Walk(func(g *yang.Stmt, _ int) {
			if g.Kw == "grouping" && g.Find("description") == nil && r.Chance(1, 2) {
				g.Kids = append([]*yang.Stmt{yang.S("description", "text of grouping "+g.Arg), yang.S("reference", "ref of "+g.Arg)}, g.Kids...)
			}
		}, 0)
	}
	// the order of the body statements of a module carries no meaning: in half of the cases it is
	// permuted, so that groupings, typedefs and augments are also met after their first use
	if idx%2 == 1 {
		for _, mod := range ms.Mods {
			c12Shuffle(r, mod, false)
		}
	}
	return c
}

// c12Shuffle permutes the body statements (section 4) of a module; usesFirst moves the data
// nodes in front of the groupings instead.
func c12Shuffle(r *core.Rng, m *yang.Stmt, usesFirst bool) {
	var head, body []*yang.Stmt
	for _, k := range m.Kids {
		if yang.Section(k.Kw) == 4 {
			body = append(body, k)
		} else {
			head = append(head, k)
		}
	}
	if usesFirst {
		var data, defs []*yang.Stmt
		for _, k := range body {
			if k.Kw == "grouping" || k.Kw == "typedef" {
				defs = append(defs, k)
			} else {
				data = append(data, k)
			}
		}
		body = append(data, defs...)
	} else {
		perm := r.Perm(len(body))
		nb := make([]*yang.Stmt, len(body))
		for i, pi := range perm {
			nb[i] = body[pi]
		}
		body = nb
	}
	m.Kids = append(head, body...)
}

func textsString(texts map[string]string) string {
	var names []string
	for n := range texts {
		names = append(names, n)
	}
	sort.Strings(names)
	var b strings.Builder
	for _, n := range names {
		fmt.Fprintf(&b, "---- %s\n%s", n, texts[n])
	}
	return b.String()
}

func (p *c12) Describe(tier string, seed int64, idx int) string {
	return textsString(c12Gen(seed, idx).ms.Texts(nil))
}

var nsAttrRe = regexp.MustCompile(`^ns=(\S*) module=(\S*) submodule=(\S*)$`)
var runAsParentRe = regexp.MustCompile(`runAsParent=(true|false)`)

func (p *c12) Run(tier string, seed int64, idx int) core.CaseResult {
	var res core.CaseResult
	// (the compiled programs of must, when and leafref paths are part of what is compared: they name the
	// namespace that every name in the expression was resolved to)
	dump.WithPrograms = true
	defer func() { dump.WithPrograms = false }()
	c := c12Gen(seed, idx)
	r := core.CaseRng(seed, "C12f", idx)
	var feats []string
	for _, f := range c.ms.Features {
		if r.Chance(2, 3) {
			feats = append(feats, f)
		}
	}
	ftexts := c.ms.Texts(nil)
	input := fmt.Sprintf("features=%v\n%s", feats, textsString(ftexts))
	fr := compileTexts(ftexts, nil, feats, nil, true)
	res.Ev("pairs_compiled", 1)
	if fr.Panic != "" {
		res.Fail("C12/panic/"+core.TopRepoFrame(fr.Stack), input, fr.Panic)
		return res
	}
	if fr.ParseErr != "" {
		res.Fail("harness-panic", input, "generated text does not parse: "+fr.ParseErr)
		return res
	}
	if c.clash {
		res.Ev("clash_sets", 1)
		if c.crossClash {
			if fr.Accepted() {
				// accepted: then both nodes are there
				n := strings.Count(fr.Dump, "leaf same\n")
				res.Ev("cross_module_homonyms_accepted", 1)
				if n != 2 {
					res.Fail("C12/sibling-clash-accepted/cross-module-homonym-replaces-the-target's-child", input,
						fmt.Sprintf("the set compiled and container cl-use has %d leaf named same (the target's own and the augmenting one are two nodes)", n))
				}
			}
			return res
		}
		if fr.Accepted() {
			cls := "C12/sibling-clash-accepted"
			if c.invalidRefine != "" {
				res.Fail("C12/invalid-refine-accepted/"+c.invalidRefine, input, "written in place the node would carry the statement twice; the refine compiled")
				return res
			}
			if k := (idx / 10) % 10; k >= 3 && k <= 6 {
				// reference-side class: the clash is between a choice and a data node
				cls += "/choice-and-data-node"
			}
			res.Fail(cls, input, "a name clash among the siblings introduced by uses/augment compiled")
		}
		return res
	}
	if c.expectWhens != nil {
		res.Ev("fixed_sets_with_whens_from_two_levels", 1)
		res.Key(input)
		if !fr.Accepted() {
			res.Fail("C12/valid-set-rejected", input, fr.Err)
			return res
		}
		for path, want := range c.expectWhens {
			var node schema.Node = fr.MS
			pan, msg, _ := core.Guard(func() {
				for _, st := range strings.Split(path, "/") {
					node = node.Child(st)
				}
				_ = node.Name()
			})
			if pan {
				res.Fail("C12/node-missing", input, path+": "+msg)
				continue
			}
			var got []string
			allParent := true
			for _, w := range node.Whens() {
				if w.Mach != nil {
					got = append(got, w.Mach.GetExpr())
				}
				allParent = allParent && w.RunAsParent
			}
			sort.Strings(got)
			w2 := append([]string{}, want...)
			sort.Strings(w2)
			if strings.Join(got, " | ") != strings.Join(w2, " | ") {
				res.Fail("C12/whens-handed-down-differ", input, fmt.Sprintf("node %s: when conditions written on the uses / augment statements that introduce it: %q, the compiled node has %q", path, w2, got))
			} else if !allParent {
				res.Fail("C12/whens-handed-down-differ", input, fmt.Sprintf("node %s: a when handed down by a uses / augment is not run on the parent", path))
			}
		}
		for path, least := range c.expectStatus {
			var node schema.Node = fr.MS
			pan, msg, _ := core.Guard(func() {
				for _, st := range strings.Split(path, "/") {
					node = node.Child(st)
				}
				_ = node.Name()
			})
			if pan {
				res.Fail("C12/node-missing", input, path+": "+msg)
				continue
			}
			res.Ev("statuses_of_nodes_with_two_sources_compared", 1)
			if got := int(node.Status()); got < least {
				res.Fail("C12/status-of-the-node-itself-lost", input, fmt.Sprintf("node %s: the statements on it and on the uses / augment that introduce it make it at least %s, the compiled node is %s",
					path, []string{"current", "deprecated", "obsolete"}[least], node.Status()))
			}
		}
		return res
	}
	inl, info := yang.Inline(c.ms)
	if c.inlined != nil {
		inl, info = c.inlined, &yang.Inliner{NUses: 3, NRefines: 1, NUsesAugments: 1, InheritedWhens: c.inheritedWhens, AugmentedBy: c.augmentedBy}
		res.Ev("fixed_pairs_with_hand_written_inline_definition", 1)
	}
	if len(info.Errs) > 0 {
		res.Fail("harness-panic", input, "inliner: "+strings.Join(info.Errs, "; "))
		return res
	}
	res.Ev("uses_expanded", int64(info.NUses))
	res.Ev("refines_applied", int64(info.NRefines))
	res.Ev("uses_augments_applied", int64(info.NUsesAugments))
	res.Ev("module_augments_applied", int64(info.NAugments))
	res.Ev("nested_uses", int64(info.NNested))
	if info.NUses+info.NAugments > 0 {
		res.Key(input)
	}
	itexts := inl.Texts(nil)
	ir := compileTexts(itexts, nil, feats, nil, true)
	both := input + "\n======== inlined ========\n" + textsString(itexts)
	if ir.Panic != "" || ir.ParseErr != "" {
		res.Fail("C12/inlined-form-crashes", both, ir.Panic+ir.ParseErr)
		return res
	}
	if fr.Accepted() != ir.Accepted() {
		res.Fail("C12/verdict-differs", both, fmt.Sprintf("factored: %s (%s)\ninlined: %s (%s)", fr.Verdict(), fr.Err, ir.Verdict(), ir.Err))
		return res
	}
	if !fr.Accepted() {
		res.Ev("pairs_rejected_by_both", 1)
		res.Fail("C12/valid-set-rejected", both, fr.Err)
		return res
	}
	// nodes introduced by module-level augments: namespace/module of the augmenting module
	augNS := func(d *dump.DNode, path []string) (string, bool) {
		for i := len(path) - 1; i >= 0; i-- {
			name := path[i][strings.Index(path[i], ":")+1:]
			if mod, ok := info.AugmentedBy[name]; ok {
				return mod, true
			}
		}
		return "", false
	}
	// assertion on the factored dump
	fr.DumpRoot.Walk(func(n *dump.DNode, path []string) {
		if mod, ok := augNS(n, path); ok {
			for _, a := range n.Attrs {
				if m := nsAttrRe.FindStringSubmatch(a); m != nil {
					if m[1] != "urn:verif:"+mod || m[2] != mod {
						res.Fail("C12/augmenting-node-namespace", both, fmt.Sprintf("node %s was introduced by an augment of module %s but has %s", strings.Join(path, "/"), mod, a))
					}
				}
			}
		}
	})
	inlinedForm := false
	norm := func(root *dump.DNode) string {
		paths := map[*dump.DNode][]string{}
		root.Walk(func(n *dump.DNode, path []string) { paths[n] = path })
		return root.StringWith(func(n *dump.DNode, a string) string {
			if nsAttrRe.MatchString(a) {
				if mod, ok := augNS(n, paths[n]); ok {
					return "ns=<augmenting module " + mod + ">"
				}
			}
			if strings.HasPrefix(a, "when ") && inlinedForm {
				// a when that the inline form copied from a uses or an augment: its context node is the
				// parent of the node that carries it, which the inline text cannot express
				for e := range info.InheritedWhens {
					if strings.HasPrefix(a, fmt.Sprintf("when expr=%q ", e)) {
						res.Ev("whens_inherited_from_uses_or_augment", 1)
						return runAsParentRe.ReplaceAllString(a, "runAsParent=true")
					}
				}
			}
			return a
		})
	}
	res.Ev("dumps_compared", 1)
	fd := norm(fr.DumpRoot)
	inlinedForm = true
	id := norm(ir.DumpRoot)
	if fd != id {
		res.Fail("C12/schema-differs-from-inline-definition", both, firstDiff(id, fd)+"\n(- inlined, + factored)")
	}
	// fixed pair only: an augment written in a submodule whose belongs-to prefix is not the module's prefix
	if c.inlined != nil && c.ms.Mods[0].Arg == "fx-user" {
		v := c.ms.Clone()
		u := v.Mods[0]
		u.Add(yang.S("include", "fx-user-sub"))
		yang.SortSections(u)
		v.Mods = append(v.Mods, yang.S("submodule", "fx-user-sub", yang.S("belongs-to", "fx-user", yang.S("prefix", "fus")),
			// (a mandatory leaf and a list that needs an entry among the added nodes: the target is a node of the
			// submodule's own module, where an augment may add what it likes)
			yang.S("augment", "/fus:fx-top/fus:plain", yang.S("leaf", "from-sub", yang.S("type", "string")),
				yang.S("leaf", "from-sub-mandatory", yang.S("type", "string"), yang.S("mandatory", "true")),
				yang.S("leaf-list", "from-sub-min", yang.S("type", "string"), yang.S("min-elements", "1")))))
		vr := compileTexts(v.Texts(nil), nil, feats, nil, true)
		res.Ev("submodule_variants_compiled", 1)
		vin := input + "\n======== with an augment from a submodule (belongs-to prefix fus) ========\n" + textsString(v.Texts(nil))
		switch {
		case vr.Panic != "" || vr.ParseErr != "":
			res.Fail("C12/submodule-variant/panic", vin, vr.Panic+vr.ParseErr)
		case !vr.Accepted():
			res.Fail("C12/submodule-variant/rejected", vin, vr.Err)
		default:
			var n schema.Node = vr.MS
			pan, _, _ := core.Guard(func() { n = n.Child("fx-top").Child("plain").Child("from-sub") })
			if pan || n == nil {
				res.Fail("C12/submodule-variant/schema-differs", vin, "/fx-top/plain/from-sub is missing")
			} else if n.Namespace() != "urn:verif:fx-user" {
				res.Fail("C12/submodule-variant/schema-differs", vin, "/fx-top/plain/from-sub has namespace "+n.Namespace())
			}
		}
	}
	// the definitions of the first module moved into a submodule it includes: the groupings are then
	// defined in the submodule and used from the module; nothing but the submodule attribution may change
	// (not for the augment-into-choice pair: the implicit case the parser wraps around a shorthand node that an
	// augment adds carries the (sub)module of the choice, not of the augment — recorded in DESIGN 10.12 as not
	// covered; the pair asserts the structure of the cases)
	if idx%3 == 0 && c.ms.Mods[0].Arg != "fx-ch" {
		if sp := c12SplitIntoSubmodule(c.ms); sp != nil {
			stexts := sp.Texts(nil)
			sr := compileTexts(stexts, nil, feats, nil, true)
			res.Ev("submodule_variants_compiled", 1)
			sboth := input + "\n======== definitions moved into a submodule ========\n" + textsString(stexts)
			switch {
			case sr.Panic != "":
				res.Fail("C12/submodule-variant/panic/"+core.TopRepoFrame(sr.Stack), sboth, sr.Panic)
			case sr.ParseErr != "":
				res.Fail("harness-panic", sboth, "submodule variant does not parse: "+sr.ParseErr)
			case !sr.Accepted():
				res.Fail("C12/submodule-variant/rejected", sboth, sr.Err)
			default:
				strip := func(root *dump.DNode) string {
					return root.StringWith(func(n *dump.DNode, a string) string {
						if m := nsAttrRe.FindStringSubmatch(a); m != nil {
							return "ns=" + m[1] + " module=" + m[2]
						}
						if strings.HasPrefix(a, "submodules=") {
							return "submodules=*"
						}
						// (a typedef is named after the text unit that holds it)
						return strings.ReplaceAll(a, "{"+c.ms.Mods[0].Arg+"-defs}", "{"+c.ms.Mods[0].Arg+"}")
					})
				}
				if a, b := strip(fr.DumpRoot), strip(sr.DumpRoot); a != b {
					res.Fail("C12/submodule-variant/schema-differs", sboth, firstDiff(a, b)+"\n(- all in the module, + definitions in a submodule)")
				}
			}
		}
	}
	if idx%151 == 0 {
		res.Sample = map[string]interface{}{"modules": len(c.ms.Mods), "uses": info.NUses, "refines": info.NRefines, "uses_augments": info.NUsesAugments,
			"module_augments": info.NAugments, "dump_nodes": fr.DumpRoot.Count()}
	}
	return res
}

// c12SplitIntoSubmodule: a copy of the set in which groupings and typedefs of the first module live in a
// submodule that the module includes (nil if nothing can be moved).  Only definitions that refer to no
// feature or identity, and to no grouping or typedef that stays behind, are moved: whether a YANG 1
// submodule may refer to definitions of its parent module is not settled by RFC 6020, and the repository
// does not resolve pfx:feature / pfx:identity references of importing modules into a submodule, which is
// outside C12's statement.
func c12SplitIntoSubmodule(ms *yang.ModSet) *yang.ModSet {
	out := ms.Clone()
	m := out.Mods[0]
	if m.Kw != "module" || m.Find("include") != nil {
		return nil
	}
	own := m.Find("prefix").Arg + ":"
	movable := map[string]bool{} // "grouping/<name>" "typedef/<name>"
	for _, k := range m.Kids {
		if k.Kw == "grouping" || k.Kw == "typedef" {
			movable[k.Kw+"/"+k.Arg] = true
		}
	}
	builtin := map[string]bool{"string": true, "boolean": true, "empty": true, "enumeration": true, "union": true, "decimal64": true, "leafref": true, "bits": true, "binary": true,
		"int8": true, "int16": true, "int32": true, "int64": true, "uint8": true, "uint16": true, "uint32": true, "uint64": true}
	refsOK := func(k *yang.Stmt) bool {
		ok := true
		k.Walk(func(s *yang.Stmt, _ int) {
			switch s.Kw {
			case "if-feature", "base":
				ok = false
			case "uses", "type":
				ref, kind := strings.TrimPrefix(s.Arg, own), "grouping"
				if s.Kw == "type" {
					kind = "typedef"
					if builtin[ref] {
						return
					}
					if ref == "identityref" || ref == "instance-identifier" {
						ok = false
						return
					}
				}
				if strings.Contains(ref, ":") {
					return // a definition of an imported module
				}
				if !movable[kind+"/"+ref] {
					ok = false
				}
			}
		}, 0)
		return ok
	}
	for changed := true; changed; {
		changed = false
		for _, k := range m.Kids {
			if (k.Kw == "grouping" || k.Kw == "typedef") && movable[k.Kw+"/"+k.Arg] && !refsOK(k) {
				delete(movable, k.Kw+"/"+k.Arg)
				changed = true
			}
		}
	}
	if len(movable) == 0 {
		return nil
	}
	sub := yang.S("submodule", m.Arg+"-defs", yang.S("belongs-to", m.Arg, yang.S("prefix", m.Find("prefix").Arg)))
	for _, imp := range m.FindAll("import") {
		sub.Add(imp.Clone())
	}
	var keep []*yang.Stmt
	for _, k := range m.Kids {
		if movable[k.Kw+"/"+k.Arg] {
			sub.Add(k)
		} else {
			keep = append(keep, k)
		}
	}
	m.Kids = keep
	m.Add(yang.S("include", sub.Arg))
	yang.SortSections(m)
	yang.SortSections(sub)
	out.Mods = append(out.Mods, sub)
	return out
}

func (p *c12) Witness(raw json.RawMessage) []core.Failure {
	var w struct {
		Text   string `json:"text"`
		Expect string `json:"expect"`
		Class  string `json:"class"`
	}
	json.Unmarshal(raw, &w)
	cr := compileTexts(map[string]string{"m": w.Text}, nil, nil, nil, false)
	if cr.Panic != "" {
		return []core.Failure{{Class: "C12/panic/" + core.TopRepoFrame(cr.Stack), Detail: cr.Panic}}
	}
	if (w.Expect == "accept") != cr.Accepted() {
		return []core.Failure{{Class: w.Class, Input: w.Text, Detail: "verdict " + cr.Verdict() + " " + cr.Err}}
	}
	return nil
}

// Shrink: developer tool.
func (p *c12) Shrink(tier string, seed int64, idx int, match string) string {
	c := c12Gen(seed, idx)
	small := shrinkSet(c.ms, func(ms *yang.ModSet) bool {
		return errContains(ms.Texts(nil), c.ms.Features, match)
	})
	return textsString(small.Texts(nil))
}
