package props

import (
	"regexp"
	"unicode/utf8"
	"strconv"
	"encoding/json"
	"fmt"
	"math/big"
	"strings"

	"github.com/danos/utils/pathutil"
	"github.com/sdcio/yang-parser/schema"

	"verifharness/internal/core"
	"verifharness/internal/yang"
)

// C16: type validation accepts exactly the YANG value space.
// Oracle: R-TYPE with exact arithmetic, on types compiled from small modules.
type c16 struct{ base }

func init() {
	core.Register(&c16{base: base{
		id: "C16",
		rule: "cases = one compiled leaf type each: all integer widths with 0-3 range parts; decimal64 with fraction-digits 1..18 and ranges up to the 64-bit limits; strings with length " +
			"(characters) and anchored pattern lists; enumerations, boolean, empty; nested unions; identityref over an identity hierarchy spread over three modules; custom error-message / " +
			"error-app-tag on the restriction in half of the cases; probes per type: every bound +/- 1 unit (1 or 10^-fd), 18/19/20-digit values, the 64-bit limits +/- 1, sign / leading-zero / " +
			"blank / '.5' / '5.' / exponent / hex / underscore / non-ASCII-digit forms, strings of bound-1/bound/bound+1 characters built from 1-, 2-, 3- and 4-byte characters, pattern probes " +
			"(the string, a proper prefix, a suffix, a superstring), enum and identity names with near misses; Validate's verdict is compared with the model and a rejection must carry " +
			"pathutil.Pathstr(path) and the custom message/app-tag; distinct_nontrivial = distinct (type text, probe) pairs",
		block: 32,
		assumptions: []string{
			"R-TYPE (harness/internal/yang/rtype.go): RFC 6020 section 9 lexical rules (integers: optional sign and decimal digits; decimal64: optional sign, digits, optional '.' and 1..fd digits), math/big comparison",
			"not asserted: '-0' for unsigned types, the identityref base identity itself, a module-qualified identity name inside the leaf's own module, patterns outside the XSD/RE2 common subset",
		},
		minEvents: []string{"types_compiled", "probe_validations", "rejections_checked_for_path", "custom_message_checks", "multi_byte_length_probes", "probes_beyond_15_digits"},
	}})
}

func (p *c16) NumCases(tier string, seed int64) int { return tierN(tier, 12000, 900000) }

var c16NumRe = regexp.MustCompile(`-?[0-9]+`)

type c16Case struct {
	kind     string
	mods     []*yang.Stmt
	leafMod  string
	model    *yang.RType
	msg, tag string // custom error-message / app-tag of the (single) restriction
	msgOn    string // which restriction carries it: range length pattern
	probes   []string
	unassert map[string]bool
	// decimal64 with a range: probes with more than 15 significant digits fall into the float64 finding class
	floatRange bool
	// types of other widths that carry the same range text as the leaf (the text has min or max in it)
	sameText []*yang.Stmt
	// identityref: the leaf comes into its module through a grouping of the module that defines the base
	viaGrouping bool
}

func errFields(err error) (path, msg, tag string) {
	raw, e := json.Marshal(err)
	if e != nil {
		return "", err.Error(), ""
	}
	var m map[string]interface{}
	json.Unmarshal(raw, &m)
	s := func(k string) string {
		if v, ok := m[k].(string); ok {
			return v
		}
		return ""
	}
	return s("error-path"), s("error-message"), s("error-app-tag")
}

func sigDigits(s string) int {
	t := strings.TrimLeft(s, "+-")
	t = strings.ReplaceAll(t, ".", "")
	t = strings.TrimLeft(t, "0")
	return len(t)
}

var c16IntLex = []string{"", "-", "+", " 5", "5 ", "0x10", "0X1F", "1e2", "1.0", "--1", "+-1", "1_0", "٣", "5a", "a5", "0b1", "0o7", "1,000", "५", "0.0", "\t5", "5\n", "Infinity", "NaN"}

func c16Gen(seed int64, idx int) *c16Case {
	r := core.CaseRng(seed, "C16", idx)
	c := &c16Case{unassert: map[string]bool{}}
	m := yang.S("module", "t16", yang.S("namespace", "urn:verif:t16"), yang.S("prefix", "t"))
	c.leafMod = "t16"
	var typ *yang.Stmt
	custom := func(restr *yang.Stmt, on string) {
		if r.Bool() {
			c.msg, c.tag, c.msgOn = "custom message for "+on, "custom-tag-"+on, on
			// both, or one of the two alone (the other keeps what the type gives by itself)
			switch r.Intn(4) {
			case 0:
				c.tag = ""
				restr.Add(yang.S("error-message", c.msg))
			case 1:
				c.msg = ""
				restr.Add(yang.S("error-app-tag", c.tag))
			default:
				restr.Add(yang.S("error-message", c.msg), yang.S("error-app-tag", c.tag))
			}
		}
	}
	seen := map[string]bool{}
	probe := func(s string) {
		if !seen[s] {
			seen[s] = true
			c.probes = append(c.probes, s)
		}
	}
	switch idx % 7 {
	case 0, 1: // integers
		signed := idx%7 == 0
		bits := core.Pick(r, []int{8, 16, 32, 64})
		c.kind = "uint"
		name := fmt.Sprintf("uint%d", bits)
		if signed {
			c.kind = "int"
			name = fmt.Sprintf("int%d", bits)
		}
		full := yang.BuiltinRange(c.kind, bits)
		set := full
		typ = yang.S("type", name)
		if r.Chance(2, 3) {
			set = subParts(r, full, true)
			kw := r.Bool
			if r.Chance(1, 3) {
				// the set reaches an end of the base type, written with its keyword; the same range text stands
				// on leaves of other widths next to this one (min and max mean something else on each of them)
				if r.Bool() {
					set[len(set)-1].Hi = full[0].Hi
				} else {
					set[0].Lo = full[0].Lo
				}
				kw = func() bool { return true }
			}
			arg := yang.RangeArg(set, 0, full[0].Lo, full[0].Hi, kw)
			rg := yang.S("range", arg)
			custom(rg, "range")
			typ.Add(rg)
			if strings.Contains(arg, "min") || strings.Contains(arg, "max") {
				for _, ob := range []int{8, 16, 32, 64} {
					if ob == bits {
						continue
					}
					of := yang.BuiltinRange(c.kind, ob)
					fits := true
					for _, lit := range c16NumRe.FindAllString(arg, -1) {
						if v, ok := new(big.Int).SetString(lit, 10); !ok || v.Cmp(of[0].Lo) < 0 || v.Cmp(of[0].Hi) > 0 {
							fits = false
						}
					}
					if fits {
						c.sameText = append(c.sameText, yang.S("type", strings.TrimRight(name, "0123456789")+fmt.Sprint(ob), yang.S("range", arg)))
					}
				}
			}
		}
		c.model = &yang.RType{Kind: c.kind, Bits: bits, Ints: set}
		for _, iv := range append(append([]yang.Interval{}, set...), full...) {
			for _, d := range []int64{-1, 0, 1} {
				for _, b := range []*big.Int{iv.Lo, iv.Hi} {
					v := add(b, d).String()
					probe(v)
					if !strings.HasPrefix(v, "-") {
						probe("+" + v)
						probe("00" + v)
					} else {
						probe("-00" + v[1:])
					}
				}
			}
		}
		for _, s := range c16IntLex {
			probe(s)
		}
		for _, s := range []string{"0", "-0", "+0", "9223372036854775807", "9223372036854775808", "-9223372036854775808", "-9223372036854775809", "18446744073709551615", "18446744073709551616",
			"99999999999999999999", "123456789012345678", "1234567890123456789", "12345678901234567890", "340282366920938463463374607431768211456"} {
			probe(s)
		}
		if !signed {
			c.unassert["-0"] = true
			c.unassert["-00"] = true
		}
	case 2: // decimal64
		c.kind = "decimal64"
		fd := r.Range(1, 18)
		full := yang.BuiltinRange("decimal64", 64)
		set := full
		typ = yang.S("type", "decimal64", yang.S("fraction-digits", fmt.Sprint(fd)))
		if r.Chance(2, 3) {
			host := full
			if r.Bool() {
				lim := new(big.Int).Exp(bi(10), bi(int64(r.Range(3, 17))), nil)
				host = []yang.Interval{{Lo: new(big.Int).Neg(lim), Hi: lim}}
			}
			set = subParts(r, host, false)
			// keep parts at least 2 units apart (adjacent decimal parts are not a defined notion)
			var sep []yang.Interval
			for _, iv := range set {
				if n := len(sep); n > 0 && add(sep[n-1].Hi, 2).Cmp(iv.Lo) > 0 {
					continue
				}
				sep = append(sep, iv)
			}
			set = sep
			rg := yang.S("range", yang.RangeArg(set, fd, full[0].Lo, full[0].Hi, r.Bool))
			custom(rg, "range")
			typ.Add(rg)
			c.floatRange = true
		}
		c.model = &yang.RType{Kind: "decimal64", FD: fd, Ints: set}
		for _, iv := range append(append([]yang.Interval{}, set...), full...) {
			for _, d := range []int64{-1, 0, 1} {
				for _, b := range []*big.Int{iv.Lo, iv.Hi} {
					v := add(b, d)
					probe(yang.FormatScaled(v, fd))
					// the whole number next to the bound, written without a fraction part
					q := new(big.Int).Quo(b, new(big.Int).Exp(bi(10), bi(int64(fd)), nil))
					probe(add(q, d).String())
					// fewer fraction digits when they are zero
					s := yang.FormatScaled(v, fd)
					if strings.HasSuffix(s, "0") && fd > 1 {
						probe(strings.TrimRight(s, "0") + "0")
					}
				}
			}
		}
		one := yang.FormatScaled(bi(1), fd)
		for _, s := range []string{"0", "1", "-1", "+1", "1.5", ".5", "5.", "-.5", "1.", "1e2", "1E2", "0x1p3", "Inf", "+Inf", "NaN", "infinity", "1_0.0", "1..0", "1.2.3", "", "-", "+", " 1.0", "1.0 ",
			one, one + "0", "-" + one, "+" + one, "007.5", "-0.0", "+0.0", "0.0", "9223372036854775807", "9223372036854775808", "-9223372036854775808", "-9223372036854775809",
			// other spellings of numbers: an exponent, a sign, a bare period, hex, underscores, special values
			"1.5e3", "-1.5e1", "+2.e2", "1.5e-3", "0.15e4", "1.5E0", "1e0", "1.e0", "+1.5", "1.", ".5", "0x1.8p1", "1_0.5", "1.5_0", "NaN", "Inf", "-Inf", "1.5 ", " 1.5", "1,5",
			"123456789012345678", "1234567890123456789", "12345678901234567890", "0." + strings.Repeat("1", fd), "0." + strings.Repeat("1", fd+1), "1." + strings.Repeat("0", 19)} {
			probe(s)
		}
	case 3: // string
		c.kind = "string"
		typ = yang.S("type", "string")
		c.model = &yang.RType{Kind: "string"}
		var lens []yang.Interval
		if r.Chance(2, 3) {
			lens = subParts(r, []yang.Interval{{Lo: bi(0), Hi: bi(10)}}, true)
			lg := yang.S("length", yang.RangeArg(lens, 0, bi(0), nil, r.Bool))
			if r.Bool() {
				custom(lg, "length")
			}
			typ.Add(lg)
			c.model.Lens = lens
		}
		if r.Chance(1, 2) {
			pt := core.Pick(r, []string{"[a-z]*", "ab+c", "a.c", "(x|yz)+", "[^0-9]*", ".*", "[a-zé]{2,4}", "日+",
				// top-level alternations: the implicit anchors must bind to the whole pattern, not to the first and last branch
				"(ab)|(yz)", "a|yz", "(x+)|(c)", "ab|c|(yz)", "(a.c)|(x)",
				// multi-character escapes inside a bracket expression
				`[\w.-]+`, `[a-z][\w\-]*(:[\w\-]+)?`, `[\W0-9]+`, `[\d.]+x?`, `[\sa]*c`, `[\w/]+`})
			ps := yang.S("pattern", pt)
			if c.msgOn == "" {
				custom(ps, "pattern")
			}
			typ.Add(ps)
			c.model.Pats = append(c.model.Pats, pt)
			if r.Chance(1, 3) {
				p2 := core.Pick(r, []string{".{0,6}", "[a-z]+", ".*c"})
				typ.Add(yang.S("pattern", p2))
				c.model.Pats = append(c.model.Pats, p2)
			}
		}
		units := []string{"a", "é", "日", "😀", "x"}
		bounds := []int64{0, 1, 2, 3}
		for _, iv := range lens {
			bounds = append(bounds, iv.Lo.Int64(), iv.Hi.Int64())
		}
		for _, b := range bounds {
			for _, d := range []int64{-1, 0, 1} {
				n := b + d
				if n < 0 || n > 14 {
					continue
				}
				for _, u := range units {
					probe(strings.Repeat(u, int(n)))
				}
				probe(strings.Repeat("aé日😀", 4)[:0] + string([]rune(strings.Repeat("aé日😀", 4))[:n]))
			}
		}
		for _, s := range []string{"a.b-c", "eth0", "ab-", "a b", "-]", "x.-]", "a/b", "a:b-c", "a:", "0.5", "1.2.3x", " a c", "\tc", "!?", "!0?", "a0"} {
			probe(s)
		}
		// byte sequences that are not UTF-8 (a stray byte, a cut sequence, an encoded surrogate, an overlong form)
		for _, s := range []string{"\xff", "a\xc3", "\xed\xa0\x80", "\xc0\x80", "ab\xfe", "\xf8\x88\x80\x80\x80"} {
			probe(s)
		}
		// characters at the borders of the YANG character set
		for _, s := range []string{"a\x08c", "a\x00c", "\x1f", "a\tc", "a\rc", "a\x7fc", "a\ufffec", "a\uffffc", "a\ufdd0c", "a\ufdcfc", "a\ufffdc", "a\U0001fffec", "a\U0001fffdc", "a\U0010ffffc", "a\ue000c"} {
			probe(s)
		}
		for _, s := range []string{"abc", "abbbc", "ab", "abcd", "xabc", "a\nc", "axc", "x", "yz", "xyzx", "xy", "ééé", "日日", "日a", "ABC", "a1", "", " ", "abc ", "\xff",
			"ab!", "!yz", "abyz", "xxq", "qc", "a", "c", "ayz", "abx"} {
			probe(s)
		}
		for _, pt := range c.model.Pats {
			if strings.Contains(pt, `\w`) || strings.Contains(pt, `\W`) || strings.Contains(pt, `\s`) || strings.Contains(pt, `\d`) {
				// (which characters outside ASCII letters and digits are word characters, digits or blanks differs
				// between XSD and the expression library: asserted on plain ASCII text only)
				for _, pr := range c.probes {
					for _, ch := range pr {
						if ch >= 0x80 || ch == '_' || ch < 0x20 && ch != '\t' {
							c.unassert[pr] = true
						}
					}
				}
			}
		}
	case 4: // enumeration / boolean / empty / bits / instance-identifier
		switch r.Intn(5) {
		case 3:
			c.kind = "bits"
			names := []string{"one", "two", "x-y"}[:r.Range(1, 3)]
			typ = yang.S("type", "bits")
			c.model = &yang.RType{Kind: "bits", Enums: names}
			for _, n := range names {
				typ.Add(yang.S("bit", n))
			}
			for _, s := range []string{"one", "two", "one two", "two one", "x-y", "", "three", "one three", "one one", "one,two", "ONE", " one"} {
				probe(s)
			}
			c.unassert["two one"] = true // any order is a lexical form; the canonical form is in position order
		case 4:
			c.kind = "instance-identifier"
			typ = yang.S("type", "instance-identifier")
			c.model = &yang.RType{Kind: "instance-identifier"}
			for _, s := range []string{"/t:c16c/t:l", "/t:c16c", "", "!!!", "not a path", "][", "c16c"} {
				probe(s)
			}
		case 0:
			c.kind = "enumeration"
			names := []string{"up", "down", "a b", "Up", "x-y.z", "日本"}
			r2 := r.Range(1, len(names))
			typ = yang.S("type", "enumeration")
			c.model = &yang.RType{Kind: "enumeration"}
			for _, n := range names[:r2] {
				e := yang.S("enum", n)
				// substatements of an enum describe it; they do not take it out of the value space
				switch r.Intn(6) {
				case 0:
					e.Add(yang.S("status", "obsolete"))
				case 1:
					e.Add(yang.S("status", "deprecated"))
				case 2:
					e.Add(yang.S("description", "the value "+n))
				case 3:
					e.Add(yang.S("value", fmt.Sprint(100+len(c.model.Enums))))
				}
				typ.Add(e)
				c.model.Enums = append(c.model.Enums, n)
			}
			for _, n := range names {
				probe(n)
				probe(n + " ")
				probe(" " + n)
				probe(strings.ToUpper(n))
				if len(n) > 1 {
					probe(n[:len(n)-1])
				}
			}
			probe("")
			probe("0")
		case 1:
			c.kind = "boolean"
			typ = yang.S("type", "boolean")
			c.model = &yang.RType{Kind: "boolean"}
			for _, s := range []string{"true", "false", "True", "TRUE", "1", "0", "t", "", " true", "true ", "yes", "falsee"} {
				probe(s)
			}
		default:
			c.kind = "empty"
			typ = yang.S("type", "empty")
			c.model = &yang.RType{Kind: "empty"}
			for _, s := range []string{"", " ", "x", "true", "0"} {
				probe(s)
			}
		}
	case 5: // union
		c.kind = "union"
		a := &yang.RType{Kind: "int", Bits: 8, Ints: []yang.Interval{yang.IV(1, 5)}}
		b := &yang.RType{Kind: "enumeration", Enums: []string{"auto", "7", "none"}}
		s3 := &yang.RType{Kind: "string", Lens: []yang.Interval{yang.IV(3, 3)}, Pats: []string{"[a-z]*"}}
		bo := &yang.RType{Kind: "boolean"}
		inner := yang.S("type", "union", yang.S("type", "enumeration", yang.S("enum", "auto"), yang.S("enum", "7"), yang.S("enum", "none")),
			yang.S("type", "string", yang.S("length", "3"), yang.S("pattern", "[a-z]*")))
		members := []*yang.Stmt{yang.S("type", "int8", yang.S("range", "1..5")), inner, yang.S("type", "boolean")}
		models := []*yang.RType{a, {Kind: "union", Members: []*yang.RType{b, s3}}, bo}
		// two members of the same builtin type (or of one typedef) that differ in their restrictions are two members
		members = append(members, yang.S("type", "int8", yang.S("range", "100..120")), yang.S("type", "string", yang.S("pattern", "[0-9]+x")))
		models = append(models, &yang.RType{Kind: "int", Bits: 8, Ints: []yang.Interval{yang.IV(100, 120)}}, &yang.RType{Kind: "string", Pats: []string{"[0-9]+x"}})
		perm := r.Perm(len(members))
		typ = yang.S("type", "union")
		c.model = &yang.RType{Kind: "union"}
		n := r.Range(1, len(members))
		for _, pi := range perm[:n] {
			typ.Add(members[pi])
			c.model.Members = append(c.model.Members, models[pi])
		}
		for _, s := range []string{"100", "120", "121", "99", "12x", "x", "0x", "100x"} {
			probe(s)
		}
		for _, s := range []string{"1", "5", "6", "0", "+3", "007", "7", "auto", "none", "Auto", "abc", "abcd", "ab", "ABC", "true", "false", "True", "", "au", "a1c", "-1"} {
			probe(s)
		}
	default: // identityref across three modules
		c.kind = "identityref"
		i1 := yang.S("module", "idm1", yang.S("namespace", "urn:verif:idm1"), yang.S("prefix", "i1"),
			yang.S("identity", "base-id"), yang.S("identity", "other-base"), yang.S("identity", "local-derived", yang.S("base", "base-id")),
			yang.S("identity", "unrelated", yang.S("base", "other-base")))
		i2 := yang.S("module", "idm2", yang.S("namespace", "urn:verif:idm2"), yang.S("prefix", "i2"), yang.S("import", "idm1", yang.S("prefix", "i1")),
			yang.S("identity", "mid", yang.S("base", "i1:base-id")), yang.S("identity", "mid-unrelated", yang.S("base", "i1:other-base")))
		i3 := yang.S("module", "idm3", yang.S("namespace", "urn:verif:idm3"), yang.S("prefix", "i3"), yang.S("import", "idm2", yang.S("prefix", "i2")),
			yang.S("identity", "leaf-id", yang.S("base", "i2:mid")), yang.S("identity", "local-derived", yang.S("base", "i2:mid-unrelated")))
		// two identities called "mid", in idm2 and idm3, both derived from base-id and each with its own descendants
		i2.Add(yang.S("identity", "deep", yang.S("base", "mid")))
		i3.Add(yang.S("import", "idm1", yang.S("prefix", "i1")), yang.S("identity", "mid", yang.S("base", "i1:base-id")), yang.S("identity", "sub-of-homonym", yang.S("base", "mid")))
		yang.SortSections(i2)
		yang.SortSections(i3)
		c.mods = []*yang.Stmt{i1, i2, i3}
		// the leaf lives in idm1 (base local) or in t16 (everything foreign)
		derived := [][2]string{{"local-derived", "idm1"}, {"mid", "idm2"}, {"leaf-id", "idm3"}, {"deep", "idm2"}, {"mid", "idm3"}, {"sub-of-homonym", "idm3"}}
		c.model = &yang.RType{Kind: "identityref", Idents: map[string]bool{}}
		switch r.Intn(4) {
		case 0:
			c.leafMod = "idm1"
			typ = yang.S("type", "identityref", yang.S("base", "base-id"))
		case 1:
			m.Add(yang.S("import", "idm1", yang.S("prefix", "ii")))
			typ = yang.S("type", "identityref", yang.S("base", "ii:base-id"))
		case 2:
			// the type statement is written in idm1 (a typedef there), the leaf in t16: what a value may
			// leave unqualified goes by the module of the leaf
			m.Add(yang.S("import", "idm1", yang.S("prefix", "ii")))
			i1.Add(yang.S("typedef", "idref-t", yang.S("type", "identityref", yang.S("base", core.Pick(r, []string{"base-id", "i1:base-id"})))))
			typ = yang.S("type", "ii:idref-t")
		default:
			// the leaf itself is written in idm1 (in a grouping there) and used in t16
			m.Add(yang.S("import", "idm1", yang.S("prefix", "ii")))
			typ = yang.S("type", "identityref", yang.S("base", "base-id"))
			c.viaGrouping = true
		}
		for _, dm := range derived {
			id, mod := dm[0], dm[1]
			c.model.Idents[mod+":"+id] = true
			probe(mod + ":" + id)
			probe(id)
			if mod == c.leafMod {
				c.model.Idents[id] = true
				c.unassert[mod+":"+id] = true
			}
		}
		// idm3:local-derived is NOT derived from base-id (it shares its name with idm1:local-derived)
		for _, s := range []string{"base-id", "idm1:base-id", "unrelated", "idm1:unrelated", "idm2:mid-unrelated", "idm3:local-derived", "i2:mid", "i1:local-derived", "idm2:leaf-id", "idm9:mid", "", "mid ", ":mid", "idm2:", "idm2:mid:x"} {
			probe(s)
		}
		c.unassert["base-id"], c.unassert["idm1:base-id"] = true, true
		if c.leafMod != "idm1" {
			// "local-derived" unqualified from a foreign module: must be rejected (only idm1's or idm3's would be meant)
		}
	}
	leaf := yang.S("leaf", "l", typ)
	cont := yang.S("container", "c16c", leaf)
	if c.viaGrouping {
		c.mods[0].Add(yang.S("grouping", "idg", leaf))
		cont = yang.S("container", "c16c", yang.S("uses", "ii:idg"))
	}
	if c.kind == "string" && typ.Arg == "string" && r.Chance(1, 2) {
		// the same restrictions written on a type that is reached through one to four typedefs, with two more
		// references to the same typedef next to the leaf (each with a pattern of its own that rejects nothing)
		depth := r.Range(1, 4)
		prev := "string"
		var levels []*yang.Stmt
		for i := 1; i <= depth; i++ {
			name := fmt.Sprintf("w%d", i)
			lt := yang.S("type", prev)
			levels = append(levels, lt)
			m.Add(yang.S("typedef", name, lt))
			prev = name
		}
		typ.Arg = prev
		// with two patterns: one of them may stand on a typedef of the chain, the other stays on the leaf's type
		// (patterns of all levels hold together)
		if ps := typ.FindAll("pattern"); len(ps) >= 2 && r.Bool() {
			typ.Remove(ps[0])
			core.Pick(r, levels).Add(ps[0])
		}
		cont.Kids = append([]*yang.Stmt{yang.S("leaf", "sib-before", yang.S("type", prev, yang.S("pattern", ".*")))}, cont.Kids...)
		cont.Add(yang.S("leaf", "sib-after", yang.S("type", prev, yang.S("pattern", "(.*)|(never)"), yang.S("pattern", ".*"))))
	}
	for i, t := range c.sameText {
		sib := yang.S("leaf", fmt.Sprintf("same-text-%d", i), t)
		if i%2 == 0 {
			cont.Kids = append([]*yang.Stmt{sib}, cont.Kids...)
		} else {
			cont.Add(sib)
		}
	}
	if c.leafMod == "t16" {
		m.Add(cont)
		yang.SortSections(m)
		c.mods = append(c.mods, m)
	} else {
		for _, mm := range c.mods {
			if mm.Arg == c.leafMod {
				mm.Add(cont)
			}
		}
	}
	return c
}

func (p *c16) Describe(tier string, seed int64, idx int) string {
	c := c16Gen(seed, idx)
	ms := &yang.ModSet{Mods: c.mods}
	return textsString(ms.Texts(nil))
}

func (p *c16) Run(tier string, seed int64, idx int) core.CaseResult {
	var res core.CaseResult
	c := c16Gen(seed, idx)
	ms := &yang.ModSet{Mods: c.mods}
	texts := ms.Texts(nil)
	input := textsString(texts)
	cr := compileTexts(texts, nil, nil, nil, false)
	res.Ev("types_compiled", 1)
	if cr.Panic != "" {
		res.Fail("C16/panic/"+core.TopRepoFrame(cr.Stack), input, cr.Panic)
		return res
	}
	if cr.ParseErr != "" || !cr.Accepted() {
		cls := "C16/valid-type-rejected/" + c.kind
		if c.kind == "decimal64" && c.floatRange && (strings.Contains(cr.Err, "disjoint") || strings.Contains(cr.Err, "ascending") || strings.Contains(cr.Err, "greater than or equal")) {
			// two distinct bounds with more than 15 significant digits look equal as float64
			for _, iv := range c.model.Ints {
				if sigDigits(iv.Lo.String()) > 15 || sigDigits(iv.Hi.String()) > 15 {
					cls = "C16/decimal64/range-compared-as-float64-beyond-15-digits"
				}
			}
		}
		res.Fail(cls, input, cr.ParseErr+cr.Err)
		return res
	}
	var typ schema.Type
	pan, msg, _ := core.Guard(func() { typ = cr.MS.Child("c16c").Child("l").Type() })
	if pan || typ == nil {
		res.Fail("C16/leaf-not-found", input, msg)
		return res
	}
	var kept []keptErr
	for _, pr := range c.probes {
		if c.unassert[pr] {
			res.Ev("unasserted_probes", 1)
			continue
		}
		want := c.model.Accepts(pr)
		path := []string{"c16c", "l", pr}
		var err error
		pan, msg, _ := core.Guard(func() { err = typ.Validate(nil, path, pr) })
		res.Ev("probe_validations", 1)
		res.Key(input + "|" + pr)
		if sigDigits(pr) > 15 {
			res.Ev("probes_beyond_15_digits", 1)
		}
		if c.kind == "string" && len(pr) != len([]rune(pr)) {
			res.Ev("multi_byte_length_probes", 1)
		}
		in := input + fmt.Sprintf("\nprobe: %q", pr)
		if pan {
			res.Fail("C16/validate-panic/"+c.kind, in, msg)
			continue
		}
		if (err == nil) != want {
			cls := c16Class(c, pr, want)
			res.Fail(cls, in, fmt.Sprintf("probe %q: value space says accept=%v, Validate returned %v", pr, want, err))
			continue
		}
		if err != nil {
			ep, em, et := errFields(err)
			res.Ev("rejections_checked_for_path", 1)
			wantPath := pathutil.Pathstr(path)
			if c.kind == "empty" {
				// the value of an empty leaf is not part of the path of its error
				wantPath = pathutil.Pathstr(path[:len(path)-1])
			}
			if ep != wantPath {
				res.Fail("C16/rejection-without-value-path/"+c.kind, in, fmt.Sprintf("error-path %q, expected %q (%v)", ep, wantPath, err))
			} else {
				// a caller may keep the error: it must still name this value after later rejections
				kept = append(kept, keptErr{err, wantPath, in})
			}
			if c.msgOn != "" && c16ViolatesOnly(c, pr) {
				res.Ev("custom_message_checks", 1)
				if (c.msg != "" && em != c.msg) || (c.tag != "" && et != c.tag) {
					res.Fail("C16/custom-error-message-or-app-tag-lost/"+c.kind+"/"+c.msgOn, in, fmt.Sprintf("restriction defines message %q app-tag %q; error has message %q app-tag %q", c.msg, c.tag, em, et))
				}
			}
		}
	}
	for _, k := range kept {
		res.Ev("kept_errors_re_read", 1)
		if ep, _, _ := errFields(k.err); ep != k.path {
			res.Fail("C16/kept-error-changed-by-a-later-rejection/"+c.kind, k.in, fmt.Sprintf("the error carried path %q when it was returned; after the later validations it carries %q", k.path, ep))
			break
		}
	}
	if idx%499 == 0 {
		res.Sample = map[string]interface{}{"kind": c.kind, "probes": len(c.probes), "type": texts[c.leafMod]}
	}
	return res
}

type keptErr struct {
	err      error
	path, in string
}

// c16ViolatesOnly: the probe is lexically fine and violates exactly the
// restriction that carries the custom message.
func c16ViolatesOnly(c *c16Case, pr string) bool {
	switch c.kind {
	case "int", "uint":
		v, ok := yang.ParseInteger(pr)
		if !ok {
			return false
		}
		full := yang.BuiltinRange(c.kind, c.model.Bits)[0]
		return full.Contains(v)
	case "decimal64":
		v, ok := yang.ParseDecimal(pr, c.model.FD)
		if !ok {
			return false
		}
		return yang.BuiltinRange("decimal64", 64)[0].Contains(v) && sigDigits(pr) <= 15
	case "string":
		if !utf8.ValidString(pr) {
			return false
		}
		for _, r := range pr {
			if !yang.IsYangChar(r) {
				// not a string at all: neither restriction is what is violated
				return false
			}
		}
		lenOK := c.model.Lens == nil || (&yang.RType{Kind: "string", Lens: c.model.Lens}).Accepts(pr)
		patOK := (&yang.RType{Kind: "string", Pats: c.model.Pats}).Accepts(pr)
		if c.msgOn == "length" {
			return !lenOK && patOK
		}
		return lenOK && !patOK && len(c.model.Pats) == 1
	}
	return false
}

// c16FloatVerdict: membership of the probe in the type's range when probe and bounds are
// converted to float64 first.
func c16FloatVerdict(c *c16Case, pr string) bool {
	v, err := strconv.ParseFloat(pr, 64)
	if err != nil {
		return false
	}
	for _, iv := range c.model.Ints {
		lo, _ := strconv.ParseFloat(yang.FormatScaled(iv.Lo, c.model.FD), 64)
		hi, _ := strconv.ParseFloat(yang.FormatScaled(iv.Hi, c.model.FD), 64)
		if lo <= v && v <= hi {
			return true
		}
	}
	return false
}

func c16Class(c *c16Case, pr string, want bool) string {
	dir := "accepted-outside-value-space"
	if want {
		dir = "rejected-inside-value-space"
	}
	switch c.kind {
	case "uint":
		if want && strings.HasPrefix(pr, "+") {
			return "C16/uint/explicit-plus-sign-rejected"
		}
	case "decimal64":
		if c.floatRange && sigDigits(pr) > 15 {
			return "C16/decimal64/range-compared-as-float64-beyond-15-digits"
		}
		// the probe itself is short but a range bound is not: the listed finding is exactly
		// "bounds and values compared as float64", so the outcome falls under it iff redoing the
		// comparison in float64 arithmetic gives the verdict the implementation gave
		if c.floatRange && c16FloatVerdict(c, pr) != want {
			for _, iv := range c.model.Ints {
				if sigDigits(iv.Lo.String()) > 15 || sigDigits(iv.Hi.String()) > 15 {
					return "C16/decimal64/range-compared-as-float64-beyond-15-digits"
				}
			}
		}
		if !c.floatRange && sigDigits(pr) > 15 {
			return "C16/decimal64/64-bit-limits-compared-as-float64"
		}
	case "bits":
		if !want {
			return "C16/bits/not-validated"
		}
	case "instance-identifier":
		if !want {
			return "C16/instance-identifier/not-validated"
		}
	case "string":
		if c.model.Lens != nil && len(pr) != len([]rune(pr)) {
			lenOK := (&yang.RType{Kind: "string", Lens: c.model.Lens}).Accepts(pr)
			byteLen := (&yang.RType{Kind: "string", Lens: c.model.Lens}).Accepts(strings.Repeat("a", len(pr)))
			if lenOK != byteLen {
				return "C16/string/length-counted-in-bytes"
			}
		}
	}
	return "C16/" + c.kind + "/" + dir
}

func (p *c16) Witness(raw json.RawMessage) []core.Failure {
	var w struct {
		Text   string `json:"text"`
		Probe  string `json:"probe"`
		Accept bool   `json:"accept"`
		Class  string `json:"class"`
	}
	json.Unmarshal(raw, &w)
	cr := compileTexts(map[string]string{"t16": w.Text}, nil, nil, nil, false)
	if !cr.Accepted() {
		return []core.Failure{{Class: "C16/valid-type-rejected", Detail: cr.Err + cr.Panic + cr.ParseErr}}
	}
	var err error
	pan, msg, _ := core.Guard(func() { err = cr.MS.Child("c16c").Child("l").Type().Validate(nil, []string{"c16c", "l", w.Probe}, w.Probe) })
	if pan {
		return []core.Failure{{Class: "C16/validate-panic", Detail: msg}}
	}
	if (err == nil) != w.Accept {
		return []core.Failure{{Class: w.Class, Input: w.Text, Detail: fmt.Sprintf("probe %q: %v", w.Probe, err)}}
	}
	return nil
}
