// Package dump is D-SCHEMA: a canonical dump of a compiled schema.ModelSet
// built through the public API only.
package dump

import (
	"fmt"
	"sort"
	"strings"

	"github.com/sdcio/yang-parser/schema"
)

// DNode is one schema node of the reconstructed hierarchy.
type DNode struct {
	Kind  string
	Name  string
	Attrs []string // "key=value", in a fixed order
	Kids  []*DNode // sorted by (kind-class, name)
	Ref   schema.Node
}

func (d *DNode) write(b *strings.Builder, depth int) {
	ind := strings.Repeat("  ", depth)
	fmt.Fprintf(b, "%s%s %s\n", ind, d.Kind, d.Name)
	for _, a := range d.Attrs {
		fmt.Fprintf(b, "%s  . %s\n", ind, a)
	}
	for _, k := range d.Kids {
		k.write(b, depth+1)
	}
}

// StringWith renders the dump with every attribute line passed through f
// (f may return "" to drop the line).
func (d *DNode) StringWith(f func(d *DNode, attr string) string) string {
	var b strings.Builder
	var w func(n *DNode, depth int)
	w = func(n *DNode, depth int) {
		ind := strings.Repeat("  ", depth)
		fmt.Fprintf(&b, "%s%s %s\n", ind, n.Kind, n.Name)
		for _, a := range n.Attrs {
			if x := f(n, a); x != "" {
				fmt.Fprintf(&b, "%s  . %s\n", ind, x)
			}
		}
		for _, k := range n.Kids {
			w(k, depth+1)
		}
	}
	w(d, 0)
	return b.String()
}

// Walk visits every node with its path of names.
func (d *DNode) Walk(f func(n *DNode, path []string)) {
	var w func(n *DNode, path []string)
	w = func(n *DNode, path []string) {
		p := append(append([]string{}, path...), n.Kind+":"+n.Name)
		f(n, p)
		for _, k := range n.Kids {
			w(k, p)
		}
	}
	w(d, nil)
}

func (d *DNode) String() string {
	var b strings.Builder
	d.write(&b, 0)
	return b.String()
}

// Count returns the number of nodes in the dump.
func (d *DNode) Count() int {
	n := 1
	for _, k := range d.Kids {
		n += k.Count()
	}
	return n
}

func statusStr(s schema.Status) string { return s.String() }

// WithPrograms: print the compiled program of every must, when and leafref path after its source text (the
// program names the namespace of every name test).  Set by C12.
var WithPrograms bool

func prog(m interface{ PrintMachine() string }) string {
	if !WithPrograms {
		return ""
	}
	return " program=" + strings.Join(strings.Fields(m.PrintMachine()), " ")
}

func whenStr(w schema.WhenContext) string {
	e, pg := "<nil machine>", ""
	if w.Mach != nil {
		e = w.Mach.GetExpr()
		pg = prog(w.Mach)
	}
	return fmt.Sprintf("when expr=%q errmsg=%q runAsParent=%v ns=%q%s", e, w.ErrMsg, w.RunAsParent, w.Namespace, pg)
}

func mustStr(m schema.MustContext) string {
	e, pg := "<nil machine>", ""
	if m.Mach != nil {
		e = m.Mach.GetExpr()
		pg = prog(m.Mach)
	}
	return fmt.Sprintf("must expr=%q errmsg=%q apptag=%q ns=%q%s", e, m.ErrMsg, m.AppTag, m.Namespace, pg)
}

// TypeString renders a type completely.
// KeepListOrder: leave the lists that the implementation returns as slices (identities of an
// identityref, enabled features and deviating modules of a model) in the order it returned them.
// Set by C11, which compares repeated compilations of one set; all other checks compare sorted lists.
var KeepListOrder bool

func TypeString(t schema.Type) string {
	if t == nil {
		return "<nil type>"
	}
	var b strings.Builder
	n := t.Name()
	fmt.Fprintf(&b, "name={%s}%s", n.Space, n.Local)
	if d, ok := t.Default(); ok {
		fmt.Fprintf(&b, " default=%q", d)
	}
	switch x := t.(type) {
	case schema.Boolean:
		b.WriteString(" boolean")
	case schema.Empty:
		b.WriteString(" empty")
	case schema.Enumeration:
		b.WriteString(" enumeration[")
		for _, e := range x.Enums() {
			fmt.Fprintf(&b, "%s=%d(%s);", e.Val, e.Value, e.Status())
		}
		b.WriteString("]")
	case schema.Integer:
		fmt.Fprintf(&b, " int%d ranges=%v msg=%q apptag=%q", x.BitWidth(), x.Rbs(), x.Msg(), x.AppTag())
	case schema.Uinteger:
		fmt.Fprintf(&b, " uint%d ranges=%v msg=%q apptag=%q", x.BitWidth(), x.Rbs(), x.Msg(), x.AppTag())
	case schema.Decimal64:
		fmt.Fprintf(&b, " decimal64 fd=%d ranges=%v msg=%q apptag=%q", x.Fd(), x.Rbs(), x.Msg(), x.AppTag())
	case schema.String:
		b.WriteString(" string")
		if l := x.Len(); l != nil {
			fmt.Fprintf(&b, " length=%v msg=%q apptag=%q", l.Lbs, l.Msg, l.AppTag)
		}
		for _, ps := range x.Pats() {
			b.WriteString(" patterns[")
			for _, p := range ps {
				fmt.Fprintf(&b, "%q msg=%q apptag=%q;", p.Pattern, p.Msg, p.AppTag)
			}
			b.WriteString("]")
		}
	case schema.Union:
		b.WriteString(" union(")
		for i, m := range x.Typs() {
			if i > 0 {
				b.WriteString(" | ")
			}
			b.WriteString(TypeString(m))
		}
		b.WriteString(")")
	case schema.Identityref:
		var ids []string
		for _, i := range x.Identities() {
			ids = append(ids, fmt.Sprintf("%s@%s(%s)=%s", i.Val, i.Module, i.Namespace, i.Value))
		}
		if !KeepListOrder {
			sort.Strings(ids)
		}
		fmt.Fprintf(&b, " identityref%v", ids)
	case schema.InstanceId:
		fmt.Fprintf(&b, " instance-identifier require=%v", x.Require())
	case schema.Leafref:
		e, pg := "<nil machine>", ""
		if x.Mach() != nil {
			e = x.Mach().GetExpr()
			pg = prog(x.Mach())
		}
		fmt.Fprintf(&b, " leafref path=%q%s", e, pg)
	case schema.Bits:
		b.WriteString(" bits[")
		for _, bit := range x.Bits() {
			fmt.Fprintf(&b, "%s=%d;", bit.Name, bit.Pos)
		}
		b.WriteString("]")
	case schema.Binary:
		b.WriteString(" binary")
	default:
		fmt.Fprintf(&b, " <unknown type %T>", t)
	}
	return b.String()
}

func common(n schema.Node) []string {
	a := []string{
		fmt.Sprintf("ns=%s module=%s submodule=%s", n.Namespace(), n.Module(), n.Submodule()),
		fmt.Sprintf("config=%v status=%s mandatory=%v", n.Config(), statusStr(n.Status()), n.Mandatory()),
	}
	if d := n.Description(); d != "" {
		a = append(a, fmt.Sprintf("description=%q", d))
	}
	for _, w := range n.Whens() {
		a = append(a, whenStr(w))
	}
	for _, m := range n.Musts() {
		a = append(a, mustStr(m))
	}
	return a
}

func kindRank(k string) int {
	switch k {
	case "choice":
		return 1
	case "case":
		return 2
	}
	return 0
}

func sortKids(ks []*DNode) {
	sort.SliceStable(ks, func(i, j int) bool {
		if ks[i].Name != ks[j].Name {
			return ks[i].Name < ks[j].Name
		}
		return kindRank(ks[i].Kind) < kindRank(ks[j].Kind)
	})
}

// realKids reconstructs the direct children of n (choices are transparent in
// Children(): a choice's data nodes appear flattened in its ancestors).
func realKids(n schema.Node) []schema.Node {
	switch n.(type) {
	case schema.Choice, schema.Case:
		return n.Choices()
	}
	hidden := map[string]bool{}
	for _, ch := range n.Choices() {
		for _, c := range ch.Children() {
			hidden[c.Name()] = true
		}
	}
	var out []schema.Node
	out = append(out, n.Choices()...)
	for _, c := range n.Children() {
		if !hidden[c.Name()] {
			out = append(out, c)
		}
	}
	return out
}

// Node dumps one schema node and its subtree.
func Node(n schema.Node) *DNode {
	d := &DNode{Name: n.Name(), Ref: n}
	switch x := n.(type) {
	case schema.Container:
		d.Kind = "container"
		d.Attrs = append(common(n), fmt.Sprintf("presence=%v", x.Presence()))
	case schema.List:
		d.Kind = "list"
		d.Attrs = append(common(n), fmt.Sprintf("keys=%v ordered-by=%s min=%d max=%d uniques=%v", x.Keys(), n.OrdBy(), x.Limit().Min, x.Limit().Max, x.Uniques()))
	case schema.LeafList:
		d.Kind = "leaf-list"
		d.Attrs = append(common(n), fmt.Sprintf("ordered-by=%s min=%d max=%d", n.OrdBy(), x.Limit().Min, x.Limit().Max), "type "+TypeString(n.Type()))
	case schema.Leaf:
		d.Kind = "leaf"
		def, has := x.Default()
		d.Attrs = append(common(n), fmt.Sprintf("default=%q hasdefault=%v", def, has), "type "+TypeString(n.Type()))
	case schema.Choice:
		d.Kind = "choice"
		d.Attrs = append(common(n), fmt.Sprintf("default-case=%q", x.DefaultCase()))
	case schema.Case:
		d.Kind = "case"
		d.Attrs = common(n)
	case schema.Tree:
		d.Kind = "tree"
	default:
		d.Kind = fmt.Sprintf("other(%T)", n)
		d.Attrs = common(n)
	}
	if _, isLeaf := n.(schema.Leaf); !isLeaf {
		if _, isLL := n.(schema.LeafList); !isLL {
			for _, k := range realKids(n) {
				d.Kids = append(d.Kids, Node(k))
			}
		}
	}
	sortKids(d.Kids)
	return d
}

// ModelSet dumps the complete compiled schema.
func ModelSet(ms schema.ModelSet) *DNode {
	root := &DNode{Kind: "modelset", Name: ""}
	var names []string
	for n := range ms.Modules() {
		names = append(names, n)
	}
	sort.Strings(names)
	for _, name := range names {
		m := ms.Modules()[name]
		md := &DNode{Kind: "module", Name: name, Ref: m}
		feats := append([]string{}, m.Features()...)
		devs := append([]string{}, m.Deviations()...)
		if !KeepListOrder {
			sort.Strings(feats)
			sort.Strings(devs)
		}
		md.Attrs = []string{
			fmt.Sprintf("ns=%s version=%q", m.Namespace(), m.Version()),
			fmt.Sprintf("features=%v", feats),
			fmt.Sprintf("deviations=%v", devs),
		}
		for _, k := range realKids(m) {
			md.Kids = append(md.Kids, Node(k))
		}
		sortKids(md.Kids)
		var rn []string
		for r := range m.Rpcs() {
			rn = append(rn, r)
		}
		sort.Strings(rn)
		for _, r := range rn {
			rpc := m.Rpcs()[r]
			rd := &DNode{Kind: "rpc", Name: r}
			if in := rpc.Input(); in != nil {
				x := Node(in)
				x.Kind, x.Name = "input", ""
				rd.Kids = append(rd.Kids, x)
			}
			if out := rpc.Output(); out != nil {
				x := Node(out)
				x.Kind, x.Name = "output", ""
				rd.Kids = append(rd.Kids, x)
			}
			md.Kids = append(md.Kids, rd)
		}
		var nn []string
		for r := range m.Notifications() {
			nn = append(nn, r)
		}
		sort.Strings(nn)
		for _, r := range nn {
			x := Node(m.Notifications()[r].Schema())
			x.Kind, x.Name = "notification", r
			md.Kids = append(md.Kids, x)
		}
		root.Kids = append(root.Kids, md)
	}
	var subs []string
	for n, s := range ms.Submodules() {
		subs = append(subs, fmt.Sprintf("%s(ns=%s)", n, s.Namespace()))
	}
	sort.Strings(subs)
	root.Attrs = []string{fmt.Sprintf("submodules=%v", subs)}
	// the merged top-level view
	top := &DNode{Kind: "merged-top", Name: ""}
	for _, k := range realKids(ms) {
		top.Kids = append(top.Kids, &DNode{Kind: "ref", Name: k.Name() + "@" + k.Namespace()})
	}
	sortKids(top.Kids)
	root.Kids = append(root.Kids, top)
	return root
}
