// Package xpmock is M-ENTRY: a recording, optionally fault-injecting
// implementation of xpath.Entry answering from a per-case table.
package xpmock

import (
	"sync"
	"context"
	"errors"
	"fmt"
	"sort"
	"strconv"
	"strings"
	"sync/atomic"

	sdcpb "github.com/sdcio/sdc-protos/sdcpb"
	"github.com/sdcio/yang-parser/xpath"
	"github.com/sdcio/yang-parser/xpath/xutils"

	"verifharness/internal/xp"
)

// Canon renders a path unambiguously: root flag, element names, sorted keys.
func Canon(p *sdcpb.Path) string {
	if p == nil {
		return "<nil>"
	}
	var b strings.Builder
	if p.IsRootBased {
		b.WriteString("/")
	}
	for i, e := range p.Elem {
		if i > 0 {
			b.WriteString("/")
		}
		b.WriteString(e.Name)
		ks := make([]string, 0, len(e.Key))
		for k := range e.Key {
			ks = append(ks, k)
		}
		sort.Strings(ks)
		for _, k := range ks {
			b.WriteString("[" + k + "=" + strconv.Quote(e.Key[k]) + "]")
		}
	}
	return b.String()
}

var ErrSentinel = errors.New("VERIF-SENTINEL-TREE-ERROR")

// Tree is one mock data tree instance (one per context / run).
type Tree struct {
	Table    xp.Table
	Default  func(path string) xp.Answer // used when Table has no entry
	Calls    []string
	FailAt   int   // fail the k-th callback (1-based); 0 = never
	Sentinel error // error returned at FailAt (default ErrSentinel)
	NCalls   int
	// Typed makes leaf answers come back as typed datums when the string looks
	// numeric/boolean (consumer-side extension; used by C02 only).
	InFlight *int32 // optional shared in-flight counter (C06)
	MaxSeen  *int32
	// DerefTarget gives the path reported by GetSdcpbPath of a leafref target.
	DerefTarget func(src string) *sdcpb.Path
	CallsAfterFailure int
	failed            bool
	// OnCall, if set, is called with the number of each failing-capable callback before it is answered
	// (used to cancel the Go context of the run at a chosen point).
	OnCall func(n int)
	// Debug runs the machine with the library's debug trace switched on.
	Debug bool
	// NilValues: GetValue answers (nil, nil) — a tree that has nothing to say about a node and says so without
	// an error.
	NilValues bool
}

type entry struct {
	t    *Tree
	path string
	lref bool
}

func (t *Tree) Root() xpath.Entry { return &entry{t: t, path: "."} }

func (t *Tree) hit(call string) error {
	t.NCalls++
	if t.OnCall != nil {
		t.OnCall(t.NCalls)
	}
	t.Calls = append(t.Calls, call)
	if t.failed {
		t.CallsAfterFailure++
	}
	if t.FailAt > 0 && t.NCalls == t.FailAt {
		t.failed = true
		if t.Sentinel != nil {
			return t.Sentinel
		}
		return ErrSentinel
	}
	return nil
}

func (t *Tree) answer(path string) xp.Answer {
	if a, ok := t.Table[path]; ok {
		return a
	}
	if t.Default != nil {
		return t.Default(path)
	}
	return xp.Answer{Kind: xp.AnsAbsent}
}

func (e *entry) GetValue() (xpath.Datum, error) {
	if err := e.t.hit("GetValue " + e.path); err != nil {
		return nil, err
	}
	if e.t.NilValues {
		return nil, nil
	}
	a := e.t.answer(e.path)
	switch a.Kind {
	case xp.AnsLeaf:
		return xpath.NewLiteralDatum(a.Vals[0]), nil
	case xp.AnsLeafList:
		// The tree keeps the values of a leaf-list and hands out that slice, as a data tree that stores
		// its values does: a run that converts or reorders it in place changes what every later run reads.
		key := e.path + "\x00" + strings.Join(a.Vals, "\x00")
		if ds, ok := storedLeafLists.Load(key); ok {
			return xpath.NewDatumSliceDatum(ds.([]xpath.Datum)), nil
		}
		ds := make([]xpath.Datum, len(a.Vals))
		for i, v := range a.Vals {
			ds[i] = xpath.NewLiteralDatum(v)
		}
		if old, loaded := storedLeafLists.LoadOrStore(key, ds); loaded {
			ds = old.([]xpath.Datum)
		}
		return xpath.NewDatumSliceDatum(ds), nil
	}
	return xpath.NewNodesetDatum([]xutils.XpathNode{}), nil
}

func (e *entry) Navigate(p *sdcpb.Path) (xpath.Entry, error) {
	c := Canon(p)
	if e.t.InFlight != nil {
		n := atomic.AddInt32(e.t.InFlight, 1)
		for {
			m := atomic.LoadInt32(e.t.MaxSeen)
			if n <= m || atomic.CompareAndSwapInt32(e.t.MaxSeen, m, n) {
				break
			}
		}
		defer atomic.AddInt32(e.t.InFlight, -1)
	}
	if err := e.t.hit("Navigate " + c); err != nil {
		return nil, err
	}
	return &entry{t: e.t, path: c}, nil
}

func (e *entry) Copy() xpath.Entry { return e }

func (e *entry) FollowLeafRef() (xpath.Entry, error) {
	if err := e.t.hit("FollowLeafRef " + e.path); err != nil {
		return nil, err
	}
	return &entry{t: e.t, path: e.path, lref: true}, nil
}

// DefaultDerefTarget: root-based /dt/<last element name of the source>.
func DefaultDerefTarget(src string) *sdcpb.Path {
	last := src
	if i := strings.LastIndex(last, "/"); i >= 0 {
		last = last[i+1:]
	}
	if i := strings.Index(last, "["); i >= 0 {
		last = last[:i]
	}
	if last == "" || last == "." || last == ".." {
		last = "x"
	}
	return &sdcpb.Path{IsRootBased: true, Elem: []*sdcpb.PathElem{
		sdcpb.NewPathElem("dt", nil), sdcpb.NewPathElem(last, map[string]string{"id": "fe80::7:1"}), sdcpb.NewPathElem("tgt", nil)}}
}

func (e *entry) GetSdcpbPath() *sdcpb.Path {
	// GetSdcpbPath cannot fail (no error in the signature): recorded only.
	e.t.Calls = append(e.t.Calls, "GetSdcpbPath "+e.path)
	f := e.t.DerefTarget
	if f == nil {
		f = DefaultDerefTarget
	}
	// The tree keeps one path object per node and hands out that object, as a data tree that stores
	// its nodes' paths does: a machine that extends it in place changes what every later run sees.
	fresh := f(e.path)
	// (the stored element slice has room behind its last element, as a slice built by appending has:
	// whoever appends to it in place writes into memory that every holder of the path shares)
	fresh.Elem = append(make([]*sdcpb.PathElem, 0, len(fresh.Elem)+3), fresh.Elem...)
	if old, ok := storedPaths.LoadOrStore(Canon(fresh), fresh); ok {
		return old.(*sdcpb.Path)
	}
	return fresh
}

var storedPaths sync.Map // canonical path -> *sdcpb.Path, process-wide

var storedLeafLists sync.Map // path + values -> []xpath.Datum, process-wide

func (e *entry) BreadthSearch(ctx context.Context, p *sdcpb.Path) ([]xpath.Entry, error) {
	c := Canon(p)
	if err := e.t.hit("BreadthSearch " + c); err != nil {
		return nil, err
	}
	a := e.t.answer(c)
	out := make([]xpath.Entry, len(a.Vals))
	for i := range out {
		out[i] = &entry{t: e.t, path: fmt.Sprintf("%s#%d", c, i)}
	}
	return out, nil
}

// ---------------------------------------------------------------- running machines

// Outcome of one run, read through the public accessors only.
type Outcome struct {
	Err     string // GetError text ("" = nil)
	ErrIs   bool   // errors.Is(GetError, sentinel)
	Kind    string // BOOLEAN NUMBER LITERAL NODESET OTHER (from PrintResult)
	Num     float64
	NumErr  string
	Str     string
	StrErr  string
	Bool    bool
	BoolErr string
	// NodeSetErr: error text of GetNodeSetResult ("" = it returned a node-set; "panic: ..." = it panicked)
	NodeSetErr string
	Panic   string
	Stack   string
}

func kindOf(print string) string {
	for _, k := range []string{"BOOLEAN", "NUMBER", "LITERAL", "NODESET"} {
		if strings.HasPrefix(print, k) {
			return k
		}
	}
	if strings.HasPrefix(print, "Failed to run") {
		return "ERROR"
	}
	return "OTHER"
}

// Run runs machine m on a fresh context over tree t.
func Run(m *xpath.Machine, t *Tree) (o Outcome) { return RunCtx(context.Background(), m, t) }

// RunCtx: as Run, with the Go context the caller hands to NewCtxFromCurrent.
func RunCtx(gctx context.Context, m *xpath.Machine, t *Tree) (o Outcome) {
	return RunKeep(gctx, m, t)()
}

// RunKeep runs the machine and keeps the result the library returned: the function it gives back reads that
// result (again, each time it is called).  A result that was returned belongs to the caller.
func RunKeep(gctx context.Context, m *xpath.Machine, t *Tree) func() Outcome {
	var res *xpath.Result
	var runPanic string
	func() {
		defer func() {
			if r := recover(); r != nil {
				runPanic = fmt.Sprint(r)
			}
		}()
		res = xpath.NewCtxFromCurrent(gctx, m, t.Root()).SetDebug(t.Debug).Run()
	}()
	return func() Outcome {
		if runPanic != "" {
			return Outcome{Panic: runPanic}
		}
		return readResult(res, t)
	}
}

func readResult(res *xpath.Result, t *Tree) (o Outcome) {
	defer func() {
		if r := recover(); r != nil {
			o.Panic = fmt.Sprint(r)
		}
	}()
	if e := res.GetError(); e != nil {
		o.Err = e.Error()
		s := t.Sentinel
		if s == nil {
			s = ErrSentinel
		}
		o.ErrIs = errors.Is(e, s) || e.Error() == s.Error()
	}
	func() {
		defer func() {
			if r := recover(); r != nil {
				o.Kind = "PRINT-PANIC"
			}
		}()
		o.Kind = kindOf(res.PrintResult())
	}()
	read := func(f func()) (p string) {
		defer func() {
			if r := recover(); r != nil {
				p = "panic: " + fmt.Sprint(r)
			}
		}()
		f()
		return ""
	}
	if p := read(func() {
		v, err := res.GetNumResult()
		o.Num = v
		if err != nil {
			o.NumErr = err.Error()
		}
	}); p != "" {
		o.NumErr = p
	}
	if p := read(func() {
		v, err := res.GetLiteralResult()
		o.Str = v
		if err != nil {
			o.StrErr = err.Error()
		}
	}); p != "" {
		o.StrErr = p
	}
	if p := read(func() {
		v, err := res.GetBoolResult()
		o.Bool = v
		if err != nil {
			o.BoolErr = err.Error()
		}
	}); p != "" {
		o.BoolErr = p
	}
	// the fourth accessor: node-set (a value or an error, like the others)
	if p := read(func() {
		_, err := res.GetNodeSetResult()
		if err != nil {
			o.NodeSetErr = err.Error()
		}
	}); p != "" {
		o.NodeSetErr = p
	}
	return o
}

// ScalarVal converts an outcome into a reference value according to the
// dynamic kind the implementation reported.
func (o Outcome) ScalarVal() (xp.Val, bool) {
	if o.Err != "" || o.Panic != "" {
		return xp.Val{}, false
	}
	switch o.Kind {
	case "NUMBER":
		return xp.VNum(o.Num), o.NumErr == ""
	case "LITERAL":
		return xp.VStr(o.Str), o.StrErr == ""
	case "BOOLEAN":
		return xp.VBool(o.Bool), o.BoolErr == ""
	}
	return xp.Val{}, false
}
