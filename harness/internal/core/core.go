// Package core holds the types shared by the driver (vcheck) and the worker
// (vworker): PRNG, case results, block records, property registry.
package core

import (
	"encoding/json"
	"fmt"
	"hash/fnv"
	"runtime/debug"
	"sort"
	"strings"
)

// ---------------------------------------------------------------- PRNG

// Rng is a SplitMix64 generator.  Every case owns one, seeded from
// (VERIF_SEED, property, case index), so a case is reproducible on its own.
type Rng struct{ s uint64 }

func NewRng(seed uint64) *Rng { return &Rng{s: seed} }

func CaseRng(seed int64, prop string, idx int) *Rng {
	h := fnv.New64a()
	fmt.Fprintf(h, "%d/%s/%d", seed, prop, idx)
	return &Rng{s: h.Sum64()}
}

func (r *Rng) U64() uint64 {
	r.s += 0x9e3779b97f4a7c15
	z := r.s
	z = (z ^ (z >> 30)) * 0xbf58476d1ce4e5b9
	z = (z ^ (z >> 27)) * 0x94d049bb133111eb
	return z ^ (z >> 31)
}

// Intn returns a value in [0,n).  n<=0 yields 0.
func (r *Rng) Intn(n int) int {
	if n <= 0 {
		return 0
	}
	return int(r.U64() % uint64(n))
}

// Range returns a value in [lo,hi].
func (r *Rng) Range(lo, hi int) int {
	if hi <= lo {
		return lo
	}
	return lo + r.Intn(hi-lo+1)
}

func (r *Rng) Bool() bool { return r.U64()&1 == 1 }

// Chance returns true with probability num/den.
func (r *Rng) Chance(num, den int) bool { return r.Intn(den) < num }

func (r *Rng) Float() float64 { return float64(r.U64()>>11) / float64(1<<53) }

func Pick[T any](r *Rng, xs []T) T { return xs[r.Intn(len(xs))] }

func (r *Rng) Perm(n int) []int {
	p := make([]int, n)
	for i := range p {
		p[i] = i
	}
	for i := n - 1; i > 0; i-- {
		j := r.Intn(i + 1)
		p[i], p[j] = p[j], p[i]
	}
	return p
}

func Hash(s string) uint64 {
	h := fnv.New64a()
	h.Write([]byte(s))
	v := h.Sum64()
	if v == 0 {
		v = 1
	}
	return v
}

// ---------------------------------------------------------------- results

// Failure is one disagreement between an observed execution and the oracle.
type Failure struct {
	// Class is the finding class computed by the oracle side (see
	// DESIGN.md §4): a failure is reported as KNOWN-FINDING only when its
	// class is listed in known_findings.json, otherwise it is a VIOLATION.
	Class  string `json:"class"`
	Input  string `json:"input"`  // the concrete input (expression, text, JSON case)
	Detail string `json:"detail"` // observed vs expected
	Idx    int    `json:"idx"`
}

// CaseResult is what a property reports for one case.
type CaseResult struct {
	// Keys are hashes identifying the distinct non-trivial things this case
	// exercised (rule per property).  Empty = trivial case.
	Keys   []uint64
	Fails  []Failure
	Events map[string]int64
	// Sets collects named sets of distinct observed values (e.g. distinct
	// map iteration orders, distinct race pairs); merged across cases.
	Sets   map[string][]string
	Sample interface{}
}

func (c *CaseResult) Ev(name string, n int64) {
	if c.Events == nil {
		c.Events = map[string]int64{}
	}
	c.Events[name] += n
}

func (c *CaseResult) Key(s string) { c.Keys = append(c.Keys, Hash(s)) }

func (c *CaseResult) AddSet(name, val string) {
	if c.Sets == nil {
		c.Sets = map[string][]string{}
	}
	c.Sets[name] = append(c.Sets[name], val)
}

func (c *CaseResult) Fail(class, input, detail string) {
	c.Fails = append(c.Fails, Failure{Class: class, Input: input, Detail: detail})
}

// Block is the unit journalled and reported by a worker.
type Block struct {
	From    int                 `json:"from"`
	To      int                 `json:"to"` // exclusive
	Keys    []uint64            `json:"keys,omitempty"`
	Fails   []Failure           `json:"fails,omitempty"`
	Events  map[string]int64    `json:"events,omitempty"`
	Sets    map[string][]string `json:"sets,omitempty"`
	Samples []interface{}       `json:"samples,omitempty"`
	CPUms   int64               `json:"cpu_ms"`
}

// Witness result for one known finding.
type WitnessResult struct {
	ID      string    `json:"id"`
	Fails   []Failure `json:"fails"`
	Matched bool      `json:"matched"` // a failure of the listed class occurred
}

// ---------------------------------------------------------------- known findings

type Finding struct {
	Property string          `json:"property"`
	ID       string          `json:"id"`
	Class    string          `json:"class"`
	What     string          `json:"what"`
	Witness  json.RawMessage `json:"witness"`
}

type FindingsFile struct {
	Comment  string    `json:"comment,omitempty"`
	Findings []Finding `json:"findings"`
	Fixed    []string  `json:"fixed"`
}

// ---------------------------------------------------------------- registry

// Property is implemented once per property id in internal/props.
type Property interface {
	ID() string
	// Level is the evidence level category.
	Level() string
	// Rule describes how cases are generated and what "distinct non-trivial" counts.
	Rule() string
	// NumCases is a pure function of (tier, seed).
	NumCases(tier string, seed int64) int
	// BlockSize is the number of cases journalled together.
	BlockSize() int
	// Run executes case idx.  It must be a pure function of (tier, seed, idx)
	// and the code under test.
	Run(tier string, seed int64, idx int) CaseResult
	// Describe renders the input of case idx without running it.
	Describe(tier string, seed int64, idx int) string
	// Witness runs the pinned witness of a known finding or a replay input.
	Witness(w json.RawMessage) []Failure
	Assumptions() []string
	// MinEvents lists event counters that must be > 0 for a run to be conclusive.
	MinEvents() []string
}

var registry = map[string]Property{}

func Register(p Property) { registry[p.ID()] = p }

func Lookup(id string) Property { return registry[id] }

func IDs() []string {
	var ids []string
	for k := range registry {
		ids = append(ids, k)
	}
	sort.Strings(ids)
	return ids
}

// ---------------------------------------------------------------- helpers

// Guard runs f and converts a panic into (msg, stack).  Used by oracles that
// must observe "the call panicked" as an event.
func Guard(f func()) (panicked bool, msg string, stack string) {
	defer func() {
		if r := recover(); r != nil {
			panicked = true
			msg = fmt.Sprint(r)
			stack = string(debug.Stack())
		}
	}()
	f()
	return
}

// TopRepoFrame extracts the innermost function of the code under test from a stack.
func TopRepoFrame(stack string) string {
	for _, l := range strings.Split(stack, "\n") {
		if strings.HasPrefix(l, "github.com/sdcio/yang-parser/") {
			if i := strings.LastIndex(l, "("); i > 0 {
				l = l[:i]
			}
			return strings.TrimPrefix(l, "github.com/sdcio/yang-parser/")
		}
	}
	return ""
}

func Trunc(s string, n int) string {
	if len(s) <= n {
		return s
	}
	return s[:n] + "…"
}
