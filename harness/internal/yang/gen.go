package yang

import (
	"fmt"

	"verifharness/internal/core"
)

// Argument values inside the domain on which all quoting forms are
// unambiguously equivalent (see ValueInAssertedDomain).
var argPool = []string{
	"a", "abc", "x-1.y_2", "hello world", "", "é日本", "it's", "say \"hi\"", "back\\slash", "semi;colon", "{brace}", "a//b", "/* c */", "plus+plus",
	"line1\nline2", "l1\nl2\nl3", "tab\tinside", "urn:x:y", "1..10|20..max", "../a/b[k='v']", "trailing", "'q'", "a'b\"c", "+", "++", "a +b",
	"multi\n\nblank", "end\n", "\nstart",
	// blanks at the very end / start of a (multi-line) value: not next to a line break, so every form must keep them
	"first\nsecond ", "one\ntwo\t", "trail ", " lead", "a\nb\nlast  ",
	// continuation lines with blanks of their own (they lie beyond the column of the opening quote)
	"first\n  indented", "x\n        eight\n y", "é日\n   after wide characters",
	// several backslashes, a backslash before n / t / r / a quote, and real escapes after an escaped backslash
	"C:\\dir\\new", "\\d+\\t+", "a\\b\tc", "x\\y\nz\\", "\\\\n", "\\n\\t\\r\\\"", "a\\\"b\\nc", "\\", "\\\\",
	// a sign in front: still one unquoted token
	"+5", "+", "++x", "-1", "+a+b",
	// characters that Unicode calls white space or format characters but YANG does not: part of an unquoted token
	"m\u00a0s", "全角\u3000空白", "thin\u2009space", "nel\u0085x", "ls\u2028x", "zw\u200bx", "\ufeffbom", "\u00a0", "a\u2003b\u00a0c",
}

// GenGenericModule builds a module whose body consists of prefixed extension
// statements (accepted anywhere, with any argument and any body), so that tree
// shape and arguments vary far beyond what the substatement tables allow for
// core statements.
func GenGenericModule(r *core.Rng, size int) *Stmt {
	m := S("module", "gm", S("namespace", "urn:gm"), S("prefix", "gm"))
	budget := size
	var gen func(depth int) *Stmt
	gen = func(depth int) *Stmt {
		budget--
		kw := fmt.Sprintf("%s:%s", core.Pick(r, []string{"gm", "x", "ext"}), core.Pick(r, []string{"a", "b", "note", "e-1", "k.v", "Z"}))
		var s *Stmt
		if r.Chance(1, 6) {
			s = S0(kw)
			s.Block = r.Bool()
		} else {
			s = S(kw, core.Pick(r, argPool))
		}
		if depth < 8 && budget > 0 && r.Chance(2, 5) {
			n := r.Range(1, 4)
			for i := 0; i < n && budget > 0; i++ {
				s.Kids = append(s.Kids, gen(depth+1))
			}
		} else if r.Chance(1, 8) {
			s.Block = true
		}
		return s
	}
	for budget > 0 {
		if r.Chance(1, 8) {
			// a choice whose substatements come in any order: shorthand cases (leaf, container, list,
			// leaf-list, anyxml), explicit cases, description / default / mandatory, extension statements
			budget--
			n := budget
			ch := S("choice", fmt.Sprintf("ch%d", n))
			parts := []*Stmt{
				S("leaf", fmt.Sprintf("sl%d", n), S("type", "string")),
				S("case", fmt.Sprintf("ec%d", n), S("leaf", fmt.Sprintf("el%d", n), S("type", "int8"))),
				S("container", fmt.Sprintf("sc%d", n), gen(3)),
				S("description", core.Pick(r, argPool)),
				S("leaf-list", fmt.Sprintf("sll%d", n), S("type", "string")),
				S("case", fmt.Sprintf("ed%d", n), S("container", fmt.Sprintf("edc%d", n))),
				gen(3),
				S("list", fmt.Sprintf("sli%d", n), S("key", "k"), S("leaf", "k", S("type", "string"))),
				S("anyxml", fmt.Sprintf("sa%d", n)),
				S("status", "current"),
			}
			for _, pi := range r.Perm(len(parts)) {
				if r.Chance(3, 4) {
					ch.Add(parts[pi])
				}
			}
			m.Add(S("container", fmt.Sprintf("cc%d", n), ch))
		} else if r.Chance(1, 5) {
			budget--
			// a few core statements with simple bodies
			m.Add(S("container", fmt.Sprintf("c%d", budget), S("description", core.Pick(r, argPool)), gen(2)))
		} else {
			m.Add(gen(1))
		}
	}
	// rpcs with and without the statements they may leave out: what is not written is not in the tree
	if r.Chance(1, 3) {
		m.Add(S("rpc", "r-bare"),
			S("rpc", "r-in", &Stmt{Kw: "input", Block: true, Kids: []*Stmt{S("leaf", "x", S("type", "string"))}}),
			S("rpc", "r-out", S("description", core.Pick(r, argPool)), &Stmt{Kw: "output", Block: true, Kids: []*Stmt{S("leaf", "y", S("type", "string"))}}),
			S("rpc", "r-both", &Stmt{Kw: "input", Block: true, Kids: []*Stmt{S("leaf", "x", S("type", "string"))}}, &Stmt{Kw: "output", Block: true, Kids: []*Stmt{S("leaf", "y", S("type", "string"))}}),
			S("notification", "n-bare"))
	}
	// key and unique arguments whose names are separated by more than one blank: the argument is what was written
	if r.Chance(1, 3) {
		sep := core.Pick(r, []string{"  ", "\n", "\t", "   "})
		m.Add(S("list", "kl", S("key", "k1"+sep+"k2"), S("leaf", "k1", S("type", "string")), S("leaf", "k2", S("type", "string")),
			S("leaf", "u1", S("type", "string")), S("leaf", "u2", S("type", "string")), S("unique", "u1"+sep+"u2")))
	}
	// deviations with every deviate kind: the keyword of the statement is "deviate", whatever its argument
	if r.Chance(1, 3) {
		m.Add(S("deviation", "/gm:a/gm:b", S("deviate", "add", S("units", core.Pick(r, argPool))), S("deviate", "delete", S("units", "v")), S("deviate", "replace", S("units", "w"))),
			S("deviation", "/gm:c", S("deviate", "not-supported")))
	}
	return m
}
