package yang

import (
	"strings"

	"verifharness/internal/core"
)

// Stmt is a generic YANG statement.
type Stmt struct {
	Kw     string
	HasArg bool
	Arg    string // decoded argument value
	Kids   []*Stmt
	Block  bool // rendered with { } even when it has no children

	// filled by the renderer
	Line, Col int // 1-based line, 0-based byte column of the keyword
}

func S(kw string, arg string, kids ...*Stmt) *Stmt {
	return &Stmt{Kw: kw, HasArg: true, Arg: arg, Kids: kids}
}

func S0(kw string, kids ...*Stmt) *Stmt {
	return &Stmt{Kw: kw, Kids: kids, Block: true}
}

func (s *Stmt) Add(kids ...*Stmt) *Stmt {
	s.Kids = append(s.Kids, kids...)
	return s
}

func (s *Stmt) Clone() *Stmt {
	c := *s
	c.Kids = nil
	for _, k := range s.Kids {
		c.Kids = append(c.Kids, k.Clone())
	}
	return &c
}

func (s *Stmt) Find(kw string) *Stmt {
	for _, k := range s.Kids {
		if k.Kw == kw {
			return k
		}
	}
	return nil
}

func (s *Stmt) FindAll(kw string) []*Stmt {
	var out []*Stmt
	for _, k := range s.Kids {
		if k.Kw == kw {
			out = append(out, k)
		}
	}
	return out
}

func (s *Stmt) FindArg(kw, arg string) *Stmt {
	for _, k := range s.Kids {
		if k.Kw == kw && k.Arg == arg {
			return k
		}
	}
	return nil
}

func (s *Stmt) Remove(kid *Stmt) {
	out := s.Kids[:0:0]
	for _, k := range s.Kids {
		if k != kid {
			out = append(out, k)
		}
	}
	s.Kids = out
}

func (s *Stmt) Count() int {
	n := 1
	for _, k := range s.Kids {
		n += k.Count()
	}
	return n
}

func (s *Stmt) Walk(f func(*Stmt, int), depth int) {
	f(s, depth)
	for _, k := range s.Kids {
		k.Walk(f, depth+1)
	}
}

// ---------------------------------------------------------------- rendering

// Layout controls how a statement tree is turned into text.
type Layout struct {
	R *core.Rng // nil = canonical layout

	// Quote: 0 canonical (unquoted when possible, else double), 1 random form
	// per argument, 2 always double, 3 always single when possible, 4 always a concatenation of 2-3 pieces
	Quote int
	// Trivia: 0 none, 1 comments and blank lines at random token boundaries,
	// 2 heavy
	Trivia int
	// Boundary >= 0: inject one trivia block at exactly this token boundary
	// (counted over the whole text); used for the one-boundary-at-a-time sweep
	Boundary int
	Indent   string // "" = two spaces, "none" = no indentation
	CRLF     bool

	boundaryCtr int
	NBoundaries int // out: number of token boundaries seen
}

func CanonicalLayout() *Layout { return &Layout{Boundary: -1} }

type renderer struct {
	b    strings.Builder
	line int // 1-based
	col  int // byte column
	lay  *Layout
	// column in "quote columns" (tab = 8, rune = 1) of the current line
	qcol int
}

func (r *renderer) write(s string) {
	for i := 0; i < len(s); i++ {
		c := s[i]
		r.b.WriteByte(c)
		if c == '\n' {
			r.line++
			r.col = 0
			r.qcol = 0
		} else {
			r.col++
			switch {
			case c == '\t':
				r.qcol += 8
			case c&0xC0 == 0x80: // UTF-8 continuation byte: same rune
			default:
				r.qcol++
			}
		}
	}
}

func (r *renderer) nl() {
	if r.lay.CRLF {
		r.write("\r\n")
	} else {
		r.write("\n")
	}
}

var triviaPool = []string{
	" ", "  ", "\t", "\n", " \n ", "/* c */", " /* a\n * b */ ", "// line comment\n", " // x { ; } \" '\n", "/**/", "\n\n", "/* \" ' ; { } */",
	// comment text that starts or ends with the characters of the markers themselves
	"/*/ x */", "/*//////\n * banner\n //////*/", "/***/", "/*/*/", "/** doc **/", "/* // */", "//\n", "///* x\n", "/* * / */", "//*/\n",
	// characters of more than one byte before a token on the same line (columns count characters)
	"/* Größe 日本語 😀 */", "/* é */ ",
	// a carriage return on its own is not a line break: the line comment goes on to the line feed
	"// was:\r    leaf old { type string; }\n", "// a\r}\n", "/* a\rb */", "//\r{\n",
}

// the trivia inserted in single-boundary mode rotates over these
var boundaryTrivia = []string{" /* b */ \n\t// lc\n ", " /*/ b */ ", "\n//*/ lc\n", " /***/\t", " /*/*/ ", " /* Größe 日本語 */ ", "\n /* 😀é */ ", "\n// was:\r leaf old { type string; }\n", " //\r}\n"}

// boundary is called at every token boundary; it may emit trivia.  sepNeeded
// forces at least one separating blank.
func (r *renderer) boundary(sepNeeded bool) {
	l := r.lay
	idx := l.boundaryCtr
	l.boundaryCtr++
	l.NBoundaries = l.boundaryCtr
	emitted := false
	if l.Boundary >= 0 {
		if idx == l.Boundary {
			r.write(boundaryTrivia[idx%len(boundaryTrivia)])
			emitted = true
		}
	} else if l.R != nil && l.Trivia > 0 {
		p := 6
		if l.Trivia >= 2 {
			p = 2
		}
		if l.R.Chance(1, p) {
			n := l.R.Range(1, 3)
			for i := 0; i < n; i++ {
				t := core.Pick(l.R, triviaPool)
				// a comment must not glue to a preceding unquoted token: keep a blank first
				if strings.HasPrefix(t, "/") {
					r.write(" ")
				}
				if l.CRLF {
					// in a text with CRLF line ends the line breaks of the trivia are CRLF as well (a
					// line break may follow an unquoted token directly)
					t = strings.ReplaceAll(t, "\n", "\r\n")
				}
				r.write(t)
			}
			emitted = true
		}
	}
	if sepNeeded && !emitted {
		r.write(" ")
	} else if sepNeeded && emitted {
		// make sure the trivia ends in a separator (a block comment does not)
		s := r.b.String()
		if last := s[len(s)-1]; last != ' ' && last != '\n' && last != '\t' {
			r.write(" ")
		}
	}
}

// CanBeUnquoted: an argument that may be written without quotes.
func CanBeUnquoted(a string) bool {
	if a == "" {
		return false
	}
	if strings.ContainsAny(a, " \t\r\n;{}\"'") || strings.Contains(a, "//") || strings.Contains(a, "/*") || strings.Contains(a, "*/") {
		return false
	}
	// a lone '+' is the concatenation sign; inside or at the start of a longer word it is an ordinary character
	if a == "+" {
		return false
	}
	return true
}

func canBeSingle(a string) bool { return !strings.Contains(a, "'") }

// encodeDouble renders value inside double quotes so that it decodes to
// value when the opening quote is at quote-column qc.  Line breaks in the value are
// written as literal line breaks followed by an indent of qc+1 blanks when
// that is decodable (no blanks around the break), otherwise as \n.
// contIndent: n columns of indentation for a continuation line.  With mix > 0 some of them are written as
// tabs behind 1..7 leading blanks (a tab counts as 8 columns wherever it stands, RFC 6020 6.1.3).
func contIndent(n, mix int) string {
	if mix <= 0 || n < 10 {
		return strings.Repeat(" ", n)
	}
	lead := 1 + mix%7
	tabs := (n - lead) / 8
	if tabs < 1 {
		return strings.Repeat(" ", n)
	}
	if mix%3 == 0 && tabs > 1 {
		tabs--
	}
	return strings.Repeat(" ", lead) + strings.Repeat("\t", tabs) + strings.Repeat(" ", n-lead-8*tabs)
}

// encodeDoubleMix: the mix argument of contIndent for the next encodeDouble call (set by the renderer).
var encodeDoubleMix int

func encodeDouble(value string, qc int, literalBreaks bool) string {
	var b strings.Builder
	for i := 0; i < len(value); i++ {
		c := value[i]
		switch c {
		case '"':
			b.WriteString(`\"`)
		case '\\':
			b.WriteString(`\\`)
		case '\t':
			// a literal tab is only safe away from line breaks; always escape
			b.WriteString(`\t`)
		case '\n':
			prevBlank := i > 0 && (value[i-1] == ' ' || value[i-1] == '\t' || value[i-1] == '\r')
			nextBlank := i+1 < len(value) && (value[i+1] == ' ' || value[i+1] == '\t')
			nextSpace := i+1 < len(value) && value[i+1] == ' '
			if !prevBlank && nextSpace && spacesThenText(value[i+1:]) {
				// the continuation line begins with blanks of its own: written after the indent they lie
				// beyond the quote column and stay (an escaped break would put them next to "\n", which is
				// outside the asserted domain)
				b.WriteString("\n")
				b.WriteString(contIndent(qc+1, encodeDoubleMix))
			} else if literalBreaks && !prevBlank && !nextBlank {
				b.WriteString("\n")
				b.WriteString(contIndent(qc+1, encodeDoubleMix))
			} else {
				b.WriteString(`\n`)
			}
		default:
			b.WriteByte(c)
		}
	}
	return b.String()
}

// spacesThenText: s starts with blanks that are followed by a visible character on the same line.
func spacesThenText(s string) bool {
	i := 0
	for i < len(s) && s[i] == ' ' {
		i++
	}
	return i > 0 && i < len(s) && s[i] != '\n' && s[i] != '\t' && s[i] != '\r'
}

// safeForEscapedBreaks: values whose \n / \t escapes are adjacent to blanks are
// outside the asserted domain (see DecodeDouble); the generators avoid them,
// this predicate lets callers check.
func ValueInAssertedDomain(v string) bool {
	for i := 0; i < len(v); i++ {
		if v[i] == '\n' || v[i] == '\t' {
			if i > 0 && (v[i-1] == ' ' || v[i-1] == '\t' || v[i-1] == '\n' || v[i-1] == '\r') {
				return false
			}
			if i+1 < len(v) && (v[i+1] == ' ' || v[i+1] == '\t' || v[i+1] == '\n') {
				return false
			}
		}
		if v[i] == '\r' {
			return false
		}
	}
	return true
}

func (r *renderer) arg(a string) {
	l := r.lay
	mode := l.Quote
	form := 0 // 0 unquoted 1 single 2 double 3 concatenation
	switch mode {
	case 0:
		if CanBeUnquoted(a) {
			form = 0
		} else {
			form = 2
		}
	case 2:
		form = 2
	case 3:
		if canBeSingle(a) && !strings.ContainsAny(a, "\n") {
			form = 1
		} else {
			form = 2
		}
	case 4:
		// always a concatenation (needs R)
		form = 3
		if strings.Contains(a, "\n ") || l.R == nil {
			form = 2
		}
	default:
		var opts []int
		if CanBeUnquoted(a) {
			opts = append(opts, 0)
		}
		if canBeSingle(a) {
			opts = append(opts, 1)
		}
		opts = append(opts, 2)
		if !strings.Contains(a, "\n ") {
			// (a cut inside the blanks that follow a line break would leave an escaped break next to blanks)
			opts = append(opts, 3)
		}
		form = core.Pick(l.R, opts)
	}
	switch form {
	case 0:
		r.write(a)
	case 1:
		r.write("'" + a + "'")
	case 2:
		qc := r.qcol
		lit := l.R != nil && l.R.Bool()
		encodeDoubleMix = 0
		if l.R != nil && l.Trivia > 0 && l.R.Chance(1, 3) {
			encodeDoubleMix = l.R.Range(1, 20)
		}
		enc := `"` + encodeDouble(a, qc, lit) + `"`
		encodeDoubleMix = 0
		r.write(enc)
		if l.R != nil && l.Trivia > 0 && strings.Contains(enc, "\n") && !strings.Contains(enc, "*/") && l.R.Chance(1, 4) {
			// the same text once more, as a comment behind the argument (at another column): trivia
			r.write(" /* " + enc + " */")
		}
	case 3:
		// split into 2-3 pieces at rune boundaries
		rs := []rune(a)
		cuts := []int{0}
		n := 2
		if l.R != nil {
			n = l.R.Range(2, 3)
		}
		for i := 1; i < n; i++ {
			c := 0
			if len(rs) > 0 {
				c = l.R.Intn(len(rs) + 1)
			}
			cuts = append(cuts, c)
		}
		cuts = append(cuts, len(rs))
		// sort cuts
		for i := 1; i < len(cuts); i++ {
			for j := i; j > 0 && cuts[j] < cuts[j-1]; j-- {
				cuts[j], cuts[j-1] = cuts[j-1], cuts[j]
			}
		}
		for i := 0; i+1 < len(cuts); i++ {
			piece := string(rs[cuts[i]:cuts[i+1]])
			if i > 0 {
				r.boundary(false)
				r.write("+")
				r.boundary(false)
			}
			if canBeSingle(piece) && !strings.Contains(piece, "\n") && l.R.Bool() {
				r.write("'" + piece + "'")
			} else {
				// no literal line breaks in pieces (keeps adjacency rules simple)
				r.write(`"` + encodeDouble(piece, r.qcol, false) + `"`)
			}
		}
	}
}

func (r *renderer) stmt(s *Stmt, depth int) {
	ind := r.lay.Indent
	if ind == "" {
		ind = "  "
	} else if ind == "none" {
		ind = "" // every statement starts in column 0
	}
	r.write(strings.Repeat(ind, depth))
	r.boundary(false)
	s.Line, s.Col = r.line, r.col
	r.write(s.Kw)
	if s.HasArg {
		r.boundary(true)
		r.arg(s.Arg)
	}
	if len(s.Kids) == 0 && !s.Block {
		r.boundary(false)
		r.write(";")
		r.nl()
		return
	}
	r.boundary(!s.HasArg || true)
	r.write("{")
	r.nl()
	for _, k := range s.Kids {
		r.stmt(k, depth+1)
	}
	r.write(strings.Repeat(ind, depth))
	r.boundary(false)
	r.write("}")
	r.nl()
}

// Render renders the tree and records keyword positions in the statements.
func Render(root *Stmt, lay *Layout) string {
	if lay == nil {
		lay = CanonicalLayout()
	}
	lay.boundaryCtr = 0
	r := &renderer{lay: lay, line: 1}
	r.stmt(root, 0)
	return r.b.String()
}
