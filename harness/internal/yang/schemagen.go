package yang

// G-YANG: generator of valid-by-construction YANG module sets (as statement
// trees).  The knobs select which language features are used; properties add
// their own transformations and defect injectors on top.

import (
	"fmt"
	"strings"

	"verifharness/internal/core"
)

type GenCfg struct {
	Modules    int  // number of modules (>=1)
	Submodule  bool // first module gets a submodule with part of its body
	Features   int  // features per module (0 = none)
	Identities int
	Typedefs   int
	Groupings  int // groupings per module; bodies may use earlier groupings
	Uses       bool
	Refine     bool
	Augment    bool
	MustWhen   bool
	Choices    bool
	Lists      bool
	Status     bool
	ConfigMix  bool // config false subtrees
	Defaults   bool
	Rpc        bool
	MaxDepth   int
	MaxKids    int
	// NoLeafref: do not generate leafref types
	NoLeafref bool
	// SimpleTypes: only string/int/bool/enum leaf types
	SimpleTypes bool
	// NoPrefixedXPath: must/when expressions carry no prefixes
	NoPrefixedXPath bool
	// UsesExtras: uses statements carry refine, augment, when, if-feature, status;
	// the top-level nodes of groupings then carry no when/status of their own
	UsesExtras bool
	// NoRefTypes: no identityref / leafref (types whose value space depends on other definitions or data)
	NoRefTypes bool
	// NoTopFeatures: no if-feature / when decoration at all (used by checks that need every node present)
	NoDecorFeatures bool
}

func DefaultGenCfg() GenCfg {
	return GenCfg{Modules: 2, Features: 2, Identities: 2, Typedefs: 2, Groupings: 2, Uses: true, Refine: true, Augment: true,
		MustWhen: true, Choices: true, Lists: true, Status: true, ConfigMix: true, Defaults: true, MaxDepth: 3, MaxKids: 4}
}

// ModSet is a set of modules/submodules.
type ModSet struct {
	Mods     []*Stmt  // roots ("module" / "submodule")
	Features []string // every feature as "<module>:<feature>"
}

func (ms *ModSet) Clone() *ModSet {
	c := &ModSet{Features: append([]string{}, ms.Features...)}
	for _, m := range ms.Mods {
		c.Mods = append(c.Mods, m.Clone())
	}
	return c
}

func (ms *ModSet) Texts(lay func() *Layout) map[string]string {
	out := map[string]string{}
	for _, m := range ms.Mods {
		var l *Layout
		if lay != nil {
			l = lay()
		}
		out[m.Arg] = Render(m, l)
	}
	return out
}

func (ms *ModSet) Find(name string) *Stmt {
	for _, m := range ms.Mods {
		if m.Arg == name {
			return m
		}
	}
	return nil
}

type modInfo struct {
	name, prefix string
	top          string // name of the module's main top-level container (unique across the set)
	root         *Stmt
	features     []string
	identities   []string
	typedefs     []tdInfo
	groupings    []string
	imports      map[string]string // module name -> prefix used here
	tops         []*Stmt           // top-level containers/lists (augment targets)
}

type tdInfo struct {
	name string
	base string // builtin base kind: "int","uint","string","decimal64","enumeration","boolean"
}

type sgen struct {
	r    *core.Rng
	cfg  GenCfg
	mods []*modInfo
	cur  *modInfo
	uniq int
	// "<module>:<grouping>" -> top-level node names of the grouping
	gtops     map[string][]string
	gtopNodes map[string][]*Stmt
	plainTop  bool // generating a top-level node of a grouping under UsesExtras
	noUses    bool // inside an augment body: the target's sibling names are not known here
}

func (g *sgen) name(prefix string) string {
	g.uniq++
	return fmt.Sprintf("%s%d", prefix, g.uniq)
}

func (g *sgen) chance(n, d int) bool { return g.r.Chance(n, d) }

// qualify a definition of module m for use inside the current module
func (g *sgen) qual(m *modInfo, name string) string {
	if m == g.cur {
		if g.chance(1, 3) {
			return m.prefix + ":" + name
		}
		return name
	}
	return g.cur.imports[m.name] + ":" + name
}

// visible modules: current + imported
func (g *sgen) visible() []*modInfo {
	out := []*modInfo{g.cur}
	for _, m := range g.mods {
		if _, ok := g.cur.imports[m.name]; ok {
			out = append(out, m)
		}
	}
	return out
}

// ---------------------------------------------------------------- types

var intTypes = []string{"int8", "int16", "int32", "int64", "uint8", "uint16", "uint32", "uint64"}

type typeGen struct {
	stmt    *Stmt
	kind    string   // int uint string decimal64 enumeration boolean empty union identityref leafref
	samples []string // values accepted by the type (for defaults)
}

func (g *sgen) genType(allowEmpty bool) typeGen {
	r := g.r
	opts := []string{"string", "int", "boolean", "enumeration"}
	if !g.cfg.SimpleTypes {
		opts = append(opts, "decimal64", "union", "typedef", "string", "int")
		if !g.cfg.NoRefTypes {
			opts = append(opts, "identityref")
		}
		if allowEmpty {
			opts = append(opts, "empty")
		}
		if !g.cfg.NoLeafref && !g.cfg.NoRefTypes {
			opts = append(opts, "leafref")
		}
	}
	switch core.Pick(r, opts) {
	case "int":
		t := core.Pick(r, intTypes)
		s := S("type", t)
		samples := []string{"1", "5", "10"}
		if g.chance(1, 2) {
			switch r.Intn(3) {
			case 0:
				s.Add(S("range", "1..10"))
			case 1:
				s.Add(S("range", "0..5 | 7 | 9..100"))
			default:
				s.Add(S("range", "min..20 | 50..max"))
			}
		}
		k := "int"
		if strings.HasPrefix(t, "u") {
			k = "uint"
		}
		return typeGen{s, k, samples}
	case "boolean":
		return typeGen{S("type", "boolean"), "boolean", []string{"true", "false"}}
	case "enumeration":
		s := S("type", "enumeration")
		n := r.Range(1, 4)
		var vals []string
		for i := 0; i < n; i++ {
			e := S("enum", fmt.Sprintf("e%d", i))
			if g.chance(1, 3) {
				e.Add(S("value", fmt.Sprint(i*10)))
			}
			s.Add(e)
			vals = append(vals, e.Arg)
		}
		return typeGen{s, "enumeration", vals}
	case "decimal64":
		fd := r.Range(1, 4)
		s := S("type", "decimal64", S("fraction-digits", fmt.Sprint(fd)))
		if g.chance(1, 2) {
			s.Add(S("range", "0..100"))
		}
		return typeGen{s, "decimal64", []string{"1", "2.5", "10"}}
	case "empty":
		return typeGen{S("type", "empty"), "empty", nil}
	case "union":
		s := S("type", "union", S("type", "int8"), S("type", "string", S("length", "1..4")))
		return typeGen{s, "union", []string{"7", "ab"}}
	case "typedef":
		var cands []struct {
			m  *modInfo
			td tdInfo
		}
		for _, m := range g.visible() {
			for _, td := range m.typedefs {
				cands = append(cands, struct {
					m  *modInfo
					td tdInfo
				}{m, td})
			}
		}
		if len(cands) == 0 {
			return typeGen{S("type", "string"), "string", []string{"abc", "x"}}
		}
		c := core.Pick(r, cands)
		samples := map[string][]string{"int": {"3", "5"}, "uint": {"3", "5"}, "string": {"ab", "abc"}, "enumeration": {"e0"}, "boolean": {"true"}, "decimal64": {"1", "2.5"}}[c.td.base]
		return typeGen{S("type", g.qual(c.m, c.td.name)), c.td.base, samples}
	case "identityref":
		var cands []string
		for _, m := range g.visible() {
			for _, id := range m.identities {
				cands = append(cands, g.qual(m, id))
			}
		}
		if len(cands) == 0 {
			return typeGen{S("type", "string"), "string", []string{"abc"}}
		}
		return typeGen{S("type", "identityref", S("base", core.Pick(r, cands))), "identityref", nil}
	case "leafref":
		paths := []string{"../name", "../../x"}
		if !g.cfg.NoPrefixedXPath {
			paths = append(paths, "/"+g.cur.prefix+":"+g.cur.top+"/"+g.cur.prefix+":name")
		}
		return typeGen{S("type", "leafref", S("path", core.Pick(r, paths))), "leafref", nil}
	default:
		s := S("type", "string")
		samples := []string{"abc", "ab", "x"}
		switch r.Intn(4) {
		case 0:
			s.Add(S("length", "1..10"))
		case 1:
			s.Add(S("pattern", "[a-z]+"))
		case 2:
			s.Add(S("length", "0..3 | 5..8"), S("pattern", "[a-z0-9]*"))
		}
		return typeGen{s, "string", samples}
	}
}

// ---------------------------------------------------------------- data nodes

type nodeCtx struct {
	depth      int
	config     bool // effective config of the parent
	inGrouping bool
	siblings   map[string]bool // names used among siblings (shared through choices)
	status     int             // 0 current 1 deprecated 2 obsolete (parent's effective)
}

var statusNames = []string{"current", "deprecated", "obsolete"}

func (g *sgen) decorate(s *Stmt, c *nodeCtx, isData bool) (config bool, status int) {
	config, status = c.config, c.status
	plain := g.plainTop
	g.plainTop = false
	if g.cfg.ConfigMix && !c.inGrouping && config && g.chance(1, 7) {
		s.Add(S("config", "false"))
		config = false
	} else if g.cfg.ConfigMix && !c.inGrouping && g.chance(1, 12) {
		// restating the inherited value is always legal
		s.Add(S("config", fmt.Sprint(config)))
	}
	if g.cfg.Status && !c.inGrouping && !plain && g.chance(1, 8) {
		st := g.r.Range(c.status, 2)
		s.Add(S("status", statusNames[st]))
		status = st
	}
	if g.chance(1, 4) {
		s.Add(S("description", core.Pick(g.r, []string{"a node", "multi\nline text", "quote \" inside", "x"})))
	}
	if g.cfg.Features > 0 && !g.cfg.NoDecorFeatures && g.chance(1, 6) {
		if f := g.pickFeature(); f != "" {
			s.Add(S("if-feature", f))
		}
	}
	if g.cfg.MustWhen && !plain && g.chance(1, 6) {
		pool := []string{"../name = 'x'", "1 = 1", "not(../flag)", "count(../x) > 0"}
		if !g.cfg.NoPrefixedXPath {
			pool = append(pool, g.cur.prefix+":name != ''")
		}
		s.Add(S("when", core.Pick(g.r, pool)))
	}
	if g.cfg.MustWhen && isData && g.chance(1, 6) {
		m := S("must", core.Pick(g.r, []string{". != ''", "../name", "string-length(.) > 0 or true()", "current()/../name = 'a'"}))
		if g.chance(1, 2) {
			m.Add(S("error-message", "must failed"))
		}
		if g.chance(1, 3) {
			m.Add(S("error-app-tag", "app-tag-1"))
		}
		s.Add(m)
	}
	return
}

func (g *sgen) pickFeature() string {
	var cands []string
	for _, m := range g.visible() {
		for _, f := range m.features {
			cands = append(cands, g.qual(m, f))
		}
	}
	if len(cands) == 0 {
		return ""
	}
	return core.Pick(g.r, cands)
}

func (g *sgen) freshName(c *nodeCtx, base string) string {
	for {
		n := g.name(base)
		if !c.siblings[n] {
			c.siblings[n] = true
			return n
		}
	}
}

func (g *sgen) genLeaf(c *nodeCtx, name string, key bool) *Stmt {
	l := S("leaf", name)
	var tg typeGen
	if key {
		if g.chance(1, 2) {
			tg = typeGen{S("type", "string"), "string", nil}
		} else {
			tg = typeGen{S("type", "uint16"), "uint", nil}
		}
		l.Add(tg.stmt)
		return l
	}
	tg = g.genType(true)
	l.Add(tg.stmt)
	g.decorate(l, c, true)
	if g.cfg.Defaults && len(tg.samples) > 0 && g.chance(1, 3) {
		l.Add(S("default", core.Pick(g.r, tg.samples)))
	} else if g.chance(1, 8) {
		l.Add(S("mandatory", "true"))
	}
	if g.chance(1, 10) {
		l.Add(S("units", "seconds"))
	}
	return l
}

func (g *sgen) genKids(c *nodeCtx, parentConfig bool, status int, n int) []*Stmt {
	kc := &nodeCtx{depth: c.depth + 1, config: parentConfig, inGrouping: c.inGrouping, siblings: map[string]bool{}, status: status}
	var out []*Stmt
	for i := 0; i < n; i++ {
		out = append(out, g.genNode(kc))
	}
	return out
}

func (g *sgen) genNode(c *nodeCtx) *Stmt {
	r := g.r
	kinds := []string{"leaf", "leaf", "leaf-list"}
	if c.depth < g.cfg.MaxDepth {
		kinds = append(kinds, "container", "container")
		if g.cfg.Lists {
			kinds = append(kinds, "list")
		}
		if g.cfg.Choices {
			kinds = append(kinds, "choice")
		}
		if g.cfg.Uses && !g.noUses && c.depth > 0 && len(g.usableGroupings()) > 0 {
			kinds = append(kinds, "uses")
		}
	}
	switch core.Pick(r, kinds) {
	case "container":
		s := S("container", g.freshName(c, "c"))
		cfgv, st := g.decorate(s, c, true)
		if g.chance(1, 3) {
			s.Add(S("presence", "enables it"))
		}
		s.Add(g.genKids(c, cfgv, st, r.Range(1, g.cfg.MaxKids))...)
		return s
	case "list":
		s := S("list", g.freshName(c, "li"))
		cfgv, st := g.decorate(s, c, true)
		s.Add(S("key", "name"))
		kc := &nodeCtx{depth: c.depth + 1, config: cfgv, inGrouping: c.inGrouping, siblings: map[string]bool{"name": true}, status: st}
		s.Add(g.genLeaf(kc, "name", true))
		var leafNames []string
		for i := r.Range(0, g.cfg.MaxKids-1); i > 0; i-- {
			k := g.genNode(kc)
			s.Add(k)
			if k.Kw == "leaf" && k.Find("type").Arg != "empty" {
				leafNames = append(leafNames, k.Arg)
			}
		}
		if len(leafNames) > 0 && g.chance(1, 3) {
			s.Add(S("unique", core.Pick(r, leafNames)))
		}
		if g.chance(1, 4) {
			s.Add(S("min-elements", fmt.Sprint(r.Intn(2))), S("max-elements", core.Pick(r, []string{"3", "10", "unbounded"})))
		}
		if g.chance(1, 4) {
			s.Add(S("ordered-by", core.Pick(r, []string{"user", "system"})))
		}
		return s
	case "leaf-list":
		s := S("leaf-list", g.freshName(c, "ll"))
		tg := g.genType(false)
		s.Add(tg.stmt)
		g.decorate(s, c, true)
		if g.chance(1, 3) {
			s.Add(S("max-elements", "5"))
		}
		if g.chance(1, 4) {
			s.Add(S("ordered-by", "user"))
		}
		return s
	case "choice":
		s := S("choice", g.freshName(c, "ch"))
		cfgv, st := g.decorate(s, c, false)
		ncases := r.Range(1, 3)
		var caseNames []string
		// names inside all cases share the parent's sibling namespace
		kc := &nodeCtx{depth: c.depth + 1, config: cfgv, inGrouping: c.inGrouping, siblings: c.siblings, status: st}
		if c.depth == 0 && !g.noUses {
			// the data nodes of a top-level choice are top-level nodes of the
			// module set (one flat name space across modules): no groupings here
			g.noUses = true
			defer func() { g.noUses = false }()
		}
		for i := 0; i < ncases; i++ {
			if g.chance(1, 3) {
				// shorthand case
				k := g.genLeaf(kc, g.freshName(kc, "sl"), false)
				if m := k.Find("mandatory"); m != nil {
					k.Remove(m)
				}
				s.Add(k)
				caseNames = append(caseNames, k.Arg)
				continue
			}
			cs := S("case", g.freshName(kc, "ca"))
			for j := r.Range(1, 2); j > 0; j-- {
				k := g.genNode(kc)
				if k.Kw == "leaf" {
					if m := k.Find("mandatory"); m != nil {
						k.Remove(m)
					}
				}
				cs.Add(k)
			}
			s.Add(cs)
			caseNames = append(caseNames, cs.Arg)
		}
		if g.chance(1, 3) {
			s.Add(S("default", core.Pick(r, caseNames)))
		} else if g.chance(1, 6) {
			s.Add(S("mandatory", "true"))
		}
		return s
	case "uses":
		ug := core.Pick(r, g.usableGroupings())
		s := S("uses", ug.ref)
		// reserve the grouping's top-level names among the siblings
		clash := false
		for _, n := range ug.tops {
			if c.siblings[n] {
				clash = true
			}
		}
		if clash {
			return g.genLeaf(c, g.freshName(c, "l"), false)
		}
		for _, n := range ug.tops {
			c.siblings[n] = true
		}
		if g.cfg.UsesExtras {
			g.usesExtras(s, ug, c)
		}
		return s
	default:
		return g.genLeaf(c, g.freshName(c, "l"), false)
	}
}

type usable struct {
	ref   string
	tops  []string
	nodes []*Stmt
}

// usesExtras decorates a uses statement with refine / augment / when /
// if-feature / status.
func (g *sgen) usesExtras(u *Stmt, ug usable, c *nodeCtx) {
	r := g.r
	refined := map[string]bool{}
	for _, n := range ug.nodes {
		if !g.chance(1, 2) || refined[n.Arg] {
			continue
		}
		refined[n.Arg] = true
		rf := S("refine", n.Arg)
		switch n.Kw {
		case "leaf":
			switch r.Intn(4) {
			case 0:
				rf.Add(S("description", "refined description"))
			case 1:
				if n.Find("default") == nil && n.Find("mandatory") == nil && c.config {
					rf.Add(S("mandatory", "true"))
				} else {
					rf.Add(S("reference", "refined ref"))
				}
			case 2:
				if t := n.Find("type"); t != nil && t.Arg == "string" && len(t.Kids) == 0 && n.Find("mandatory") == nil {
					rf.Add(S("default", "refined"))
				} else {
					rf.Add(S("description", "d2"))
				}
			default:
				rf.Add(S("must", "1 = 1", S("error-message", "refined must")))
			}
		case "container":
			if n.Find("presence") == nil && r.Bool() {
				rf.Add(S("presence", "refined presence"))
			} else {
				rf.Add(S("description", "refined container"), S("must", "2 = 2"))
			}
		case "list", "leaf-list":
			rf.Add(S("max-elements", "7"))
			if r.Bool() {
				rf.Add(S("min-elements", "0"))
			}
		case "choice":
			rf.Add(S("description", "refined choice"))
		default:
			continue
		}
		u.Add(rf)
	}
	for _, n := range ug.nodes {
		if n.Kw == "container" && g.chance(1, 2) {
			a := S("augment", n.Arg)
			ac := &nodeCtx{depth: c.depth + 2, config: c.config, inGrouping: c.inGrouping, siblings: map[string]bool{}, status: c.status}
			for _, k := range n.Kids {
				ac.siblings[k.Arg] = true
			}
			ual := g.genLeaf(ac, g.freshName(ac, "ual"), false)
			for _, kw := range []string{"status", "when", "config"} {
				if x := ual.Find(kw); x != nil {
					ual.Remove(x)
				}
			}
			a.Add(ual)
			if g.cfg.MustWhen && g.chance(1, 3) {
				a.Add(S("when", "3 = 3"))
			}
			u.Add(a)
			break
		}
	}
	if g.cfg.MustWhen && !c.inGrouping && g.chance(1, 3) {
		u.Add(S("when", "../flag = 'true'"))
	}
	if g.cfg.Features > 0 && !g.cfg.NoDecorFeatures && g.chance(1, 3) {
		if f := g.pickFeature(); f != "" {
			u.Add(S("if-feature", f))
		}
	}
	if g.cfg.Status && !c.inGrouping && g.chance(1, 4) {
		u.Add(S("status", statusNames[g.r.Range(c.status, 2)]))
	}
}

func (g *sgen) usableGroupings() []usable {
	var out []usable
	for _, m := range g.visible() {
		for _, gr := range m.groupings {
			out = append(out, usable{ref: g.qual(m, gr), tops: g.gtops[m.name+":"+gr], nodes: g.gtopNodes[m.name+":"+gr]})
		}
	}
	return out
}

// ---------------------------------------------------------------- module

func (g *sgen) genModule(idx int) *modInfo {
	r := g.r
	mi := &modInfo{name: fmt.Sprintf("mod-%c", 'a'+idx), prefix: fmt.Sprintf("p%c", 'a'+idx), top: fmt.Sprintf("top-%c", 'a'+idx), imports: map[string]string{}}
	g.cur = mi
	root := S("module", mi.name, S("namespace", "urn:verif:"+mi.name), S("prefix", mi.prefix))
	mi.root = root
	for _, prev := range g.mods {
		if g.chance(2, 3) {
			pfx := prev.prefix
			if g.chance(1, 4) {
				pfx = "i" + prev.prefix // a different local prefix for the same module
			}
			mi.imports[prev.name] = pfx
			root.Add(S("import", prev.name, S("prefix", pfx)))
		}
	}
	if g.chance(1, 2) {
		root.Add(S("organization", "verif"), S("description", "generated module "+mi.name))
	}
	if g.chance(1, 2) {
		root.Add(S("revision", "2021-06-01", S("description", "second")), S("revision", "2020-01-01"))
	}
	for i := 0; i < g.cfg.Features; i++ {
		f := S("feature", fmt.Sprintf("f%d", i))
		// dependencies only on features defined earlier (DAG)
		if g.chance(1, 3) {
			if dep := g.pickFeature(); dep != "" {
				f.Add(S("if-feature", dep))
			}
		}
		root.Add(f)
		mi.features = append(mi.features, f.Arg)
	}
	for i := 0; i < g.cfg.Identities; i++ {
		id := S("identity", fmt.Sprintf("id%d", i))
		var cands []string
		for _, m := range g.visible() {
			for _, x := range m.identities {
				cands = append(cands, g.qual(m, x))
			}
		}
		if len(cands) > 0 && g.chance(2, 3) {
			id.Add(S("base", core.Pick(r, cands)))
		}
		root.Add(id)
		mi.identities = append(mi.identities, id.Arg)
	}
	for i := 0; i < g.cfg.Typedefs; i++ {
		td := S("typedef", fmt.Sprintf("td%d", i))
		switch r.Intn(4) {
		case 0:
			td.Add(S("type", "int32", S("range", "0..100")))
			if g.chance(1, 2) {
				td.Add(S("default", "5"))
			}
			mi.typedefs = append(mi.typedefs, tdInfo{td.Arg, "int"})
		case 1:
			td.Add(S("type", "string", S("length", "1..8"), S("pattern", "[a-z]*")))
			mi.typedefs = append(mi.typedefs, tdInfo{td.Arg, "string"})
		case 2:
			td.Add(S("type", "enumeration", S("enum", "e0"), S("enum", "e1")))
			mi.typedefs = append(mi.typedefs, tdInfo{td.Arg, "enumeration"})
		default:
			// derived from an earlier typedef when there is one
			if len(mi.typedefs) > 0 && mi.typedefs[0].base == "int" {
				td.Add(S("type", mi.typedefs[0].name, S("range", "1..50")))
				mi.typedefs = append(mi.typedefs, tdInfo{td.Arg, "int"})
			} else {
				td.Add(S("type", "uint8"))
				mi.typedefs = append(mi.typedefs, tdInfo{td.Arg, "uint"})
			}
		}
		root.Add(td)
	}
	for i := 0; i < g.cfg.Groupings; i++ {
		gr := S("grouping", fmt.Sprintf("g%d", i))
		c := &nodeCtx{depth: 1, config: true, inGrouping: true, siblings: map[string]bool{}}
		for j := r.Range(1, 3); j > 0; j-- {
			g.plainTop = g.cfg.UsesExtras
			k := g.genNode(c)
			g.plainTop = false
			gr.Add(k)
			if k.Kw != "uses" {
				g.gtopNodes[mi.name+":"+gr.Arg] = append(g.gtopNodes[mi.name+":"+gr.Arg], k)
			}
		}
		var tops []string
		for n := range c.siblings {
			tops = append(tops, n)
		}
		g.gtops[mi.name+":"+gr.Arg] = tops
		root.Add(gr)
		mi.groupings = append(mi.groupings, gr.Arg)
	}
	// body
	top := S("container", mi.top, S("leaf", "name", S("type", "string")), S("leaf", "flag", S("type", "boolean")))
	c := &nodeCtx{depth: 1, config: true, siblings: map[string]bool{"name": true, "flag": true}}
	for j := r.Range(1, g.cfg.MaxKids+1); j > 0; j-- {
		top.Add(g.genNode(c))
	}
	root.Add(top)
	mi.tops = append(mi.tops, top)
	if g.chance(1, 2) {
		c2 := &nodeCtx{depth: 0, config: true, siblings: map[string]bool{}}
		root.Add(g.genNode(c2))
	}
	if g.cfg.Rpc && g.chance(1, 2) {
		root.Add(S("rpc", "op", S0("input", S("leaf", "in", S("type", "string"))), S0("output", S("leaf", "out", S("type", "int8")))))
		root.Add(S("notification", "ev", S("leaf", "why", S("type", "string"))))
	}
	if g.cfg.Augment {
		for _, m := range g.visible() {
			if g.chance(1, 2) {
				tp := m.prefix
				if m != mi {
					tp = mi.imports[m.name]
				}
				aug := S("augment", "/"+tp+":"+m.top)
				ac := &nodeCtx{depth: 1, config: true, siblings: map[string]bool{}}
				augWhen := g.cfg.MustWhen && g.chance(1, 3)
				for j := r.Range(1, 2); j > 0; j-- {
					g.noUses = true
					k := g.genNode(ac)
					g.noUses = false
					if augWhen {
						if w := k.Find("when"); w != nil {
							k.Remove(w)
						}
					}
					// augmenting nodes in another module must not be mandatory
					k.Walk(func(x *Stmt, d int) {
						if mm := x.Find("mandatory"); mm != nil {
							x.Remove(mm)
						}
						if mm := x.Find("min-elements"); mm != nil {
							mm.Arg = "0"
						}
					}, 0)
					// avoid clashes with the target's names: prefix by module
					k.Arg = "aug-" + mi.name + "-" + k.Arg
					aug.Add(k)
				}
				if augWhen {
					if g.cfg.NoPrefixedXPath {
						aug.Add(S("when", "name = 'x'"))
					} else {
						aug.Add(S("when", tp+":name = 'x'"))
					}
				}
				root.Add(aug)
			}
		}
	}
	SortSections(root)
	return mi
}

// GenSchemaSet generates a module set.
func GenSchemaSet(r *core.Rng, cfg GenCfg) *ModSet {
	g := &sgen{r: r, cfg: cfg, gtops: map[string][]string{}, gtopNodes: map[string][]*Stmt{}}
	ms := &ModSet{}
	for i := 0; i < cfg.Modules; i++ {
		mi := g.genModule(i)
		g.mods = append(g.mods, mi)
		ms.Mods = append(ms.Mods, mi.root)
		for _, f := range mi.features {
			ms.Features = append(ms.Features, mi.name+":"+f)
		}
	}
	return ms
}
