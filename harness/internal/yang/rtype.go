package yang

// R-TYPE: exact model of the YANG value spaces (RFC 6020 section 9), with
// math/big arithmetic: integer sets, decimal64 as scaled integers, string
// lengths in characters, pattern lists, enumerations, unions, identity sets.

import (
	"fmt"
	"math/big"
	"regexp"
	"strings"
	"unicode/utf8"
)

type Interval struct{ Lo, Hi *big.Int }

func IV(lo, hi int64) Interval { return Interval{big.NewInt(lo), big.NewInt(hi)} }

func (iv Interval) Contains(v *big.Int) bool { return v.Cmp(iv.Lo) >= 0 && v.Cmp(iv.Hi) <= 0 }

type RType struct {
	Kind     string // int uint decimal64 string boolean enumeration empty union identityref
	Bits     int
	FD       int
	Ints     []Interval // numeric value set (decimal64: scaled by 10^FD)
	Lens     []Interval // nil = unrestricted
	Pats     []string
	Enums    []string
	Members  []*RType
	Idents   map[string]bool
	patCache []*regexp.Regexp
}

func pow10(n int) *big.Int { return new(big.Int).Exp(big.NewInt(10), big.NewInt(int64(n)), nil) }

// BuiltinRange gives the full value set of a numeric builtin.
func BuiltinRange(kind string, bits int) []Interval {
	one := big.NewInt(1)
	switch kind {
	case "uint":
		hi := new(big.Int).Sub(new(big.Int).Lsh(one, uint(bits)), one)
		return []Interval{{big.NewInt(0), hi}}
	case "int":
		lo := new(big.Int).Neg(new(big.Int).Lsh(one, uint(bits-1)))
		hi := new(big.Int).Sub(new(big.Int).Lsh(one, uint(bits-1)), one)
		return []Interval{{lo, hi}}
	case "decimal64":
		lo := new(big.Int).Neg(new(big.Int).Lsh(one, 63))
		hi := new(big.Int).Sub(new(big.Int).Lsh(one, 63), one)
		return []Interval{{lo, hi}}
	}
	return nil
}

func allDigitsB(s string) bool {
	if s == "" {
		return false
	}
	for i := 0; i < len(s); i++ {
		if s[i] < '0' || s[i] > '9' {
			return false
		}
	}
	return true
}

// ParseInteger: optional sign followed by decimal digits (RFC 6020 9.2.1).
func ParseInteger(s string) (*big.Int, bool) {
	t := s
	neg := false
	if strings.HasPrefix(t, "+") {
		t = t[1:]
	} else if strings.HasPrefix(t, "-") {
		t = t[1:]
		neg = true
	}
	if !allDigitsB(t) {
		return nil, false
	}
	v, _ := new(big.Int).SetString(t, 10)
	if neg {
		v.Neg(v)
	}
	return v, true
}

// ParseDecimal: optional sign, digits, optionally '.' and digits (at most fd),
// returned scaled by 10^fd (RFC 6020 9.3.1).
func ParseDecimal(s string, fd int) (*big.Int, bool) {
	t := s
	neg := false
	if strings.HasPrefix(t, "+") {
		t = t[1:]
	} else if strings.HasPrefix(t, "-") {
		t = t[1:]
		neg = true
	}
	ip, fp := t, ""
	if i := strings.Index(t, "."); i >= 0 {
		ip, fp = t[:i], t[i+1:]
		if !allDigitsB(fp) {
			return nil, false
		}
	}
	if !allDigitsB(ip) || len(fp) > fd {
		return nil, false
	}
	v, _ := new(big.Int).SetString(ip+fp+strings.Repeat("0", fd-len(fp)), 10)
	if neg {
		v.Neg(v)
	}
	return v, true
}

func inSet(set []Interval, v *big.Int) bool {
	for _, iv := range set {
		if iv.Contains(v) {
			return true
		}
	}
	return false
}

func (t *RType) pats() []*regexp.Regexp {
	if t.patCache == nil && len(t.Pats) > 0 {
		for _, p := range t.Pats {
			t.patCache = append(t.patCache, regexp.MustCompile("^(?:"+p+")$"))
		}
	}
	return t.patCache
}

// Accepts decides whether s is a lexical representation of a value of t.
func (t *RType) Accepts(s string) bool {
	switch t.Kind {
	case "int", "uint":
		v, ok := ParseInteger(s)
		return ok && inSet(t.Ints, v)
	case "decimal64":
		v, ok := ParseDecimal(s, t.FD)
		return ok && inSet(t.Ints, v)
	case "string":
		if !utf8.ValidString(s) {
			return false
		}
		for _, r := range s {
			if !IsYangChar(r) {
				return false
			}
		}
		if t.Lens != nil && !inSet(t.Lens, big.NewInt(int64(utf8.RuneCountInString(s)))) {
			return false
		}
		for _, re := range t.pats() {
			if !re.MatchString(s) {
				return false
			}
		}
		return true
	case "boolean":
		return s == "true" || s == "false"
	case "enumeration":
		for _, e := range t.Enums {
			if e == s {
				return true
			}
		}
		return false
	case "empty":
		return s == ""
	case "bits":
		// RFC 6020 9.7.2: a space-separated list of the names of the bits that are set (each declared, none twice)
		seen := map[string]bool{}
		for _, b := range strings.Fields(s) {
			ok := false
			for _, e := range t.Enums {
				if e == b {
					ok = true
				}
			}
			if !ok || seen[b] {
				return false
			}
			seen[b] = true
		}
		return strings.TrimSpace(s) == s && !strings.Contains(s, "  ") && !strings.ContainsAny(s, "\t\n")
	case "instance-identifier":
		// only what is plainly no instance identifier is modelled: it starts with '/' and is not empty
		return strings.HasPrefix(s, "/") && len(s) > 1 && !strings.ContainsAny(s, " !")
	case "union":
		for _, m := range t.Members {
			if m.Accepts(s) {
				return true
			}
		}
		return false
	case "identityref":
		return t.Idents[s]
	}
	return false
}

// Subset: is every derived interval inside the base set?  For integer-valued
// sets adjacent base intervals are contiguous.
func Subset(derived, base []Interval, mergeAdjacent bool) bool {
	merged := base
	if mergeAdjacent {
		merged = nil
		for _, iv := range base {
			if n := len(merged); n > 0 && new(big.Int).Add(merged[n-1].Hi, big.NewInt(1)).Cmp(iv.Lo) >= 0 {
				if iv.Hi.Cmp(merged[n-1].Hi) > 0 {
					merged[n-1].Hi = iv.Hi
				}
				continue
			}
			merged = append(merged, Interval{iv.Lo, iv.Hi})
		}
	}
	for _, d := range derived {
		ok := false
		for _, b := range merged {
			if d.Lo.Cmp(b.Lo) >= 0 && d.Hi.Cmp(b.Hi) <= 0 {
				ok = true
			}
		}
		if !ok {
			return false
		}
	}
	return true
}

// WellFormed: every part ordered, parts ascending and disjoint.
func WellFormed(parts []Interval) bool {
	for i, p := range parts {
		if p.Lo.Cmp(p.Hi) > 0 {
			return false
		}
		if i > 0 && parts[i-1].Hi.Cmp(p.Lo) >= 0 {
			return false
		}
	}
	return len(parts) > 0
}

// FormatScaled renders a scaled integer as a decimal with exactly fd fraction digits.
func FormatScaled(v *big.Int, fd int) string {
	if fd == 0 {
		return v.String()
	}
	neg := v.Sign() < 0
	a := new(big.Int).Abs(v).String()
	for len(a) <= fd {
		a = "0" + a
	}
	s := a[:len(a)-fd] + "." + a[len(a)-fd:]
	if neg {
		s = "-" + s
	}
	return s
}

// RangeArg renders intervals as a YANG range/length argument; bounds equal to
// the base minimum/maximum may be written as min/max.
func RangeArg(parts []Interval, fd int, baseMin, baseMax *big.Int, useKeywords func() bool) string {
	var out []string
	for _, p := range parts {
		lo, hi := FormatScaled(p.Lo, fd), FormatScaled(p.Hi, fd)
		if baseMin != nil && p.Lo.Cmp(baseMin) == 0 && useKeywords() {
			lo = "min"
		}
		if baseMax != nil && p.Hi.Cmp(baseMax) == 0 && useKeywords() {
			hi = "max"
		}
		if p.Lo.Cmp(p.Hi) == 0 && lo != "min" && hi != "max" {
			out = append(out, lo)
		} else if p.Lo.Cmp(p.Hi) == 0 && lo == "min" && useKeywords() {
			// range-part = range-boundary, and a boundary may be a keyword: a part that is "min" alone
			out = append(out, "min")
		} else if p.Lo.Cmp(p.Hi) == 0 && hi == "max" && useKeywords() {
			out = append(out, "max")
		} else {
			out = append(out, fmt.Sprintf("%s..%s", lo, hi))
		}
	}
	return strings.Join(out, " | ")
}

// IsYangChar: RFC 6020 9.4 / RFC 7950 section 14 yang-char: tab, line feed, carriage return and the characters
// of Unicode that are not C0 controls, surrogates or non-characters.
func IsYangChar(r rune) bool {
	switch {
	case r == 0x09 || r == 0x0A || r == 0x0D:
		return true
	case r < 0x20:
		return false
	case r >= 0xD800 && r <= 0xDFFF:
		return false
	case r >= 0xFDD0 && r <= 0xFDEF:
		return false
	case r&0xFFFE == 0xFFFE: // U+FFFE, U+FFFF and the last two code points of every plane
		return false
	case r > 0x10FFFF:
		return false
	}
	return true
}
