// Package yang is the harness' own model of YANG source text: generic
// statement trees, renderers with controllable layout/quoting/trivia, the
// RFC 6020 section 6.1.3 string decoder (R-YSTR) and generators.  No code is
// shared with the repository under test.
package yang

import (
	"strings"
)

// PieceKind of one piece of an argument in source form.
type PieceKind int

const (
	Unquoted PieceKind = iota
	Single
	Double
)

// Piece is one (un)quoted piece of an argument as written in the source.
type Piece struct {
	Kind PieceKind
	Raw  string // content between the quotes, exactly as in the source
}

// tab = 8 columns (RFC 6020 6.1.3)
func cols(s string) int {
	n := 0
	for _, c := range s {
		if c == '\t' {
			n += 8
		} else {
			n++
		}
	}
	return n
}

// stripIndent removes leading blanks/tabs of a continuation line up to and
// including quoteCol (0-based column of the opening double quote); a tab
// counts as 8 columns and a tab that straddles the limit leaves the excess as
// spaces.
func stripIndent(line string, quoteCol int) string {
	limit := quoteCol + 1
	used := 0
	for i := 0; i < len(line); i++ {
		c := line[i]
		w := 0
		switch c {
		case ' ':
			w = 1
		case '\t':
			w = 8
		default:
			return line[i:]
		}
		used += w
		if used >= limit {
			return strings.Repeat(" ", used-limit) + line[i+1:]
		}
	}
	return ""
}

func substituteEscapes(s string) (out string, undefined bool) {
	var b strings.Builder
	for i := 0; i < len(s); i++ {
		if s[i] != '\\' {
			b.WriteByte(s[i])
			continue
		}
		if i+1 >= len(s) {
			undefined = true
			b.WriteByte('\\')
			continue
		}
		switch s[i+1] {
		case 'n':
			b.WriteByte('\n')
		case 't':
			b.WriteByte('\t')
		case '"':
			b.WriteByte('"')
		case '\\':
			b.WriteByte('\\')
		default:
			// only the four escapes are substituted: any other character behind a backslash leaves both
			// where they are.  (Not asserted next to layout: a backslash before a blank or a line break.)
			// Not asserted either: \r, which the implementation reads as a carriage return (RFC 6020 names
			// four escapes and is silent on the rest; YANG 1.1 forbids the rest).
			if c := s[i+1]; c == ' ' || c == '\t' || c == '\n' || c == '\r' || c == 'r' {
				undefined = true
			}
			b.WriteByte('\\')
			b.WriteByte(s[i+1])
		}
		i++
	}
	return b.String(), undefined
}

// trimLayout applies the whitespace rules to text containing literal line breaks.
func trimLayout(s string, quoteCol int) string {
	if !strings.Contains(s, "\n") {
		return s
	}
	lines := strings.Split(s, "\n")
	for i := range lines {
		if i > 0 {
			lines[i] = stripIndent(lines[i], quoteCol)
		}
		if i < len(lines)-1 {
			// blanks before the line break (LF or CRLF) are removed
			cr := strings.HasSuffix(lines[i], "\r")
			body := lines[i]
			if cr {
				body = body[:len(body)-1]
			}
			body = strings.TrimRight(body, " \t")
			if cr {
				body += "\r"
			}
			lines[i] = body
		}
	}
	return strings.Join(lines, "\n")
}

// DecodeDouble decodes the raw content of a double-quoted string whose
// opening quote stands at 0-based column quoteCol.  asserted=false when the
// value is not pinned down by RFC 6020: an undefined escape, or a value that
// depends on whether escapes are substituted before or after trimming.
func DecodeDouble(raw string, quoteCol int) (value string, asserted bool) {
	// trim first, then substitute (the order RFC 7950 spells out)
	a, undef := substituteEscapes(trimLayout(raw, quoteCol))
	// substitute first, then trim
	sub, _ := substituteEscapes(raw)
	b := trimLayout(sub, quoteCol)
	return a, !undef && a == b
}

// Decode decodes a concatenation of pieces; quoteCols[i] is the column of the
// opening quote of piece i (ignored for other kinds).
func Decode(pieces []Piece, quoteCols []int) (string, bool) {
	var b strings.Builder
	ok := true
	for i, p := range pieces {
		switch p.Kind {
		case Double:
			v, a := DecodeDouble(p.Raw, quoteCols[i])
			if !a {
				ok = false
			}
			b.WriteString(v)
		default:
			b.WriteString(p.Raw)
		}
	}
	return b.String(), ok
}
