package yang

// SeedTexts are hand-written YANG texts exercising every lexical form
// (unquoted / single / double quoted arguments, concatenations, escapes,
// block and line comments, nested blocks, CRLF, tabs).  They are accepted by
// a conforming YANG 1.0 parser.
var SeedTexts = []string{
	`module seed-a {
  namespace "urn:seed:a";
  prefix sa;

  import seed-b { prefix sb; revision-date 2020-01-01; }
  include seed-a-sub;

  organization "Org";
  contact 'someone@example.org';
  description
    "First line
     second line \"quoted\" \\ backslash
     third\tline";
  reference "RFC 6020" + " section " + '6.1.3';

  revision 2021-02-03 { description "later"; }
  revision 2020-01-01 { description "initial"; reference "none"; }

  /* block comment { ; " ' */
  // line comment } {
  feature f1;
  feature f2 { if-feature f1; status current; }

  identity base-id;
  identity derived-id { base base-id; description "d"; }

  typedef percent {
    type uint8 { range "0..100"; }
    default 50;
    units "%";
  }

  extension ext { argument name { yin-element true; } }

  grouping g1 {
    leaf gl { type string { length "1..10|20"; pattern '[a-z]+'; } }
    container gc { presence "p"; leaf x { type int32; } }
  }

  container top {
    sa:ext "extension usage" { sa:ext nested; }
    config true;
    leaf name { type string; mandatory true; }
    leaf pct { type percent; }
    leaf-list tags { type string; ordered-by user; max-elements 5; min-elements 0; }
    list entries {
      key "id";
      unique "a b";
      leaf id { type uint32 { range "1..max"; } }
      leaf a { type int8; }
      leaf b { type decimal64 { fraction-digits 2; range "-10.00..10.00"; } }
      leaf r { type leafref { path "../../name"; } }
      must "a > 0" { error-message "a must be positive"; error-app-tag tag; }
      when "../name != 'none'";
    }
    choice ch {
      default c1;
      case c1 { leaf l1 { type empty; } }
      case c2 { leaf l2 { type boolean; default "false"; } }
      leaf short { type enumeration { enum one { value 1; } enum two; } }
    }
    uses g1 { refine gl { default "abc"; } augment gc { leaf y { type string; } } }
    anyxml any;
  }

  augment "/sa:top/sa:entries" { if-feature f2; leaf aug { type identityref { base base-id; } } }

  rpc do-it {
    input { leaf in { type union { type int32; type string; } } }
    output { leaf out { type bits { bit b0 { position 0; } bit b1; } } }
  }
  notification ev { leaf why { type instance-identifier { require-instance false; } } }

  deviation "/sa:top/sa:pct" { deviate replace { default 10; } }
  deviation "/sa:top/sa:any" { deviate not-supported; }
}
`,
	"submodule seed-a-sub {\r\n  belongs-to seed-a { prefix sa; }\r\n  description \"crlf text\r\n    continued  \r\n  end\";\r\n  leaf sl { type string; }\r\n}\r\n",
	"module t{namespace\"urn:t\";prefix t;leaf l{type string;description'a'+\"b\"+\n\t\"c\";}}",
	"module c { // comment\n\tnamespace /* inline */ \"urn:c\" /* after */ ; /* before */ prefix c;\n\tcontainer\tx\t{\n\t\tdescription\n\t\t\t\"tab\n\t\t\t indented\n\t\t\ttext\";\n\t}\n}\n",
	"module u {\n  namespace \"urn:u\";\n  prefix u;\n  u:e1 unquoted/arg:with.odd-chars_1;\n  u:e2 \"日本語 é\";\n  u:e3 'single ' + \"'\" + ' quoted';\n  u:e4 { u:e5; }\n  u:e6 \"\" { u:e7 ''; }\n}\n",
}
