package yang

// R-SUB: the RFC 6020 substatement tables (transcribed by hand from sections
// 7.1.1 ... 9.x, see DESIGN.md Appendix A), minimal valid instances of every
// statement, context chains, and ABNF recognisers per argument kind.
// Independent of the repository's cardinality.go.

import (
	"fmt"
	"strings"
)

// Card values
const (
	C01    = "0..1"
	C1     = "1"
	C0n    = "0..n"
	C1n    = "1..n"
	Either = "either" // table and ABNF disagree (errata): not asserted
)

func cardMap(spec string) map[string]string {
	m := map[string]string{}
	for _, f := range strings.Split(spec, ",") {
		f = strings.TrimSpace(f)
		if f == "" {
			continue
		}
		parts := strings.Fields(f)
		m[parts[0]] = parts[1]
	}
	return m
}

const dataDefs = "anyxml 0..n, choice 0..n, container 0..n, leaf 0..n, leaf-list 0..n, list 0..n, uses 0..n"

var moduleBody = "augment 0..n, " + dataDefs + ", deviation 0..n, extension 0..n, feature 0..n, grouping 0..n, identity 0..n, " +
	"import 0..n, include 0..n, notification 0..n, rpc 0..n, typedef 0..n, revision 0..n, contact 0..1, description 0..1, organization 0..1, reference 0..1, yang-version 0..1"

// SubTable[parent][child] = cardinality.  A parent that is absent takes no substatements.
var SubTable = map[string]map[string]string{
	"module":       cardMap(moduleBody + ", namespace 1, prefix 1"),
	"submodule":    cardMap(moduleBody + ", belongs-to 1"),
	"import":       cardMap("prefix 1, revision-date 0..1"),
	"include":      cardMap("revision-date 0..1"),
	"revision":     cardMap("description 0..1, reference 0..1"),
	"belongs-to":   cardMap("prefix 1"),
	"typedef":      cardMap("default 0..1, description 0..1, reference 0..1, status 0..1, type 1, units 0..1"),
	"type":         cardMap("bit 0..n, enum 0..n, length 0..1, path 0..1, pattern 0..n, range 0..1, require-instance 0..1, type 0..n, base either, fraction-digits either"),
	"container":    cardMap(dataDefs + ", config 0..1, description 0..1, grouping 0..n, if-feature 0..n, must 0..n, presence 0..1, reference 0..1, status 0..1, typedef 0..n, when 0..1"),
	"leaf":         cardMap("config 0..1, default 0..1, description 0..1, if-feature 0..n, mandatory 0..1, must 0..n, reference 0..1, status 0..1, type 1, units 0..1, when 0..1"),
	"leaf-list":    cardMap("config 0..1, description 0..1, if-feature 0..n, max-elements 0..1, min-elements 0..1, must 0..n, ordered-by 0..1, reference 0..1, status 0..1, type 1, units 0..1, when 0..1"),
	"list":         cardMap(dataDefs + ", config 0..1, description 0..1, grouping 0..n, if-feature 0..n, key 0..1, max-elements 0..1, min-elements 0..1, must 0..n, ordered-by 0..1, reference 0..1, status 0..1, typedef 0..n, unique 0..n, when 0..1"),
	"choice":       cardMap("anyxml 0..n, case 0..n, config 0..1, container 0..n, default 0..1, description 0..1, if-feature 0..n, leaf 0..n, leaf-list 0..n, list 0..n, mandatory 0..1, reference 0..1, status 0..1, when 0..1"),
	"case":         cardMap(dataDefs + ", description 0..1, if-feature 0..n, reference 0..1, status 0..1, when 0..1"),
	"anyxml":       cardMap("config 0..1, description 0..1, if-feature 0..n, mandatory 0..1, must 0..n, reference 0..1, status 0..1, when 0..1"),
	"grouping":     cardMap(dataDefs + ", description 0..1, grouping 0..n, reference 0..1, status 0..1, typedef 0..n"),
	"uses":         cardMap("augment either, description 0..1, if-feature 0..n, refine either, reference 0..1, status 0..1, when 0..1"),
	"rpc":          cardMap("description 0..1, grouping 0..n, if-feature 0..n, input 0..1, output 0..1, reference 0..1, status 0..1, typedef 0..n"),
	"input":        cardMap(dataDefs + ", grouping 0..n, typedef 0..n"),
	"output":       cardMap(dataDefs + ", grouping 0..n, typedef 0..n"),
	"notification": cardMap(dataDefs + ", description 0..1, grouping 0..n, if-feature 0..n, reference 0..1, status 0..1, typedef 0..n"),
	"augment":      cardMap(dataDefs + ", case 0..n, description 0..1, if-feature 0..n, reference 0..1, status 0..1, when 0..1"),
	"identity":     cardMap("base 0..1, description 0..1, reference 0..1, status 0..1"),
	"extension":    cardMap("argument 0..1, description 0..1, reference 0..1, status 0..1"),
	"argument":     cardMap("yin-element 0..1"),
	"feature":      cardMap("description 0..1, if-feature 0..n, reference 0..1, status 0..1"),
	"deviation":    cardMap("description 0..1, deviate 1..n, reference 0..1"),
	"must":         cardMap("description 0..1, error-app-tag 0..1, error-message 0..1, reference 0..1"),
	"range":        cardMap("description 0..1, error-app-tag 0..1, error-message 0..1, reference 0..1"),
	"length":       cardMap("description 0..1, error-app-tag 0..1, error-message 0..1, reference 0..1"),
	"pattern":      cardMap("description 0..1, error-app-tag 0..1, error-message 0..1, reference 0..1"),
	"enum":         cardMap("description 0..1, reference 0..1, status 0..1, value 0..1"),
	"bit":          cardMap("description 0..1, reference 0..1, status 0..1, position 0..1"),
	"when":         cardMap("description 0..1, reference 0..1"),
}

// Parents whose substatements are deliberately not checked at parse level
// (the implementation defers them to the compiler; C12/C14 cover that).
var UnassertedParents = map[string]bool{"refine": true, "deviate": true}

// AllKeywords are the RFC 6020 statement keywords.
var AllKeywords = []string{
	"anyxml", "argument", "augment", "base", "belongs-to", "bit", "case", "choice", "config", "contact", "container", "default",
	"description", "deviate", "deviation", "enum", "error-app-tag", "error-message", "extension", "feature", "fraction-digits",
	"grouping", "identity", "if-feature", "import", "include", "input", "key", "leaf", "leaf-list", "length", "list", "mandatory",
	"max-elements", "min-elements", "module", "must", "namespace", "notification", "ordered-by", "organization", "output", "path",
	"pattern", "position", "prefix", "presence", "range", "reference", "refine", "require-instance", "revision", "revision-date",
	"rpc", "status", "submodule", "type", "typedef", "unique", "units", "uses", "value", "when", "yang-version", "yin-element",
}

// Minimal returns a minimal valid instance of keyword kw; i makes names distinct.
func Minimal(kw string, i int) *Stmt {
	n := func(base string) string { return fmt.Sprintf("%s%d", base, i) }
	leafK := func() *Stmt { return S("leaf", "k", S("type", "string")) }
	switch kw {
	case "module":
		return S("module", n("m"), S("namespace", "urn:"+n("m")), S("prefix", n("m")))
	case "submodule":
		return S("submodule", n("s"), S("belongs-to", "m0", S("prefix", "m0")))
	case "import":
		return S("import", n("imp"), S("prefix", n("ip")))
	case "include":
		return S("include", n("inc"))
	case "revision":
		return S("revision", fmt.Sprintf("20%02d-01-01", 30-i))
	case "belongs-to":
		return S("belongs-to", "m0", S("prefix", "m0"))
	case "typedef":
		return S("typedef", n("t"), S("type", "string"))
	case "type":
		return S("type", "string")
	case "container":
		return S("container", n("c"))
	case "leaf":
		return S("leaf", n("l"), S("type", "string"))
	case "leaf-list":
		return S("leaf-list", n("ll"), S("type", "string"))
	case "list":
		return S("list", n("li"), S("key", "k"), leafK())
	case "choice":
		return S("choice", n("ch"))
	case "case":
		return S("case", n("ca"), S("leaf", n("cl"), S("type", "string")))
	case "anyxml":
		return S("anyxml", n("ax"))
	case "grouping":
		return S("grouping", n("g"), S("leaf", n("gl"), S("type", "string")))
	case "uses":
		return S("uses", n("g"))
	case "rpc":
		return S("rpc", n("r"))
	case "input":
		return S0("input", S("leaf", n("il"), S("type", "string")))
	case "output":
		return S0("output", S("leaf", n("ol"), S("type", "string")))
	case "notification":
		return S("notification", n("n"))
	case "augment":
		return S("augment", "/m0:c"+fmt.Sprint(i), S("leaf", n("al"), S("type", "string")))
	case "identity":
		return S("identity", n("i"))
	case "extension":
		return S("extension", n("e"))
	case "argument":
		return S("argument", n("a"))
	case "feature":
		return S("feature", n("f"))
	case "deviation":
		return S("deviation", "/m0:d"+fmt.Sprint(i), S("deviate", "not-supported"))
	case "deviate":
		return S("deviate", "add", S("units", "u"))
	case "must":
		return S("must", fmt.Sprintf("%d = %d", i, i))
	case "range":
		return S("range", "1..2")
	case "length":
		return S("length", "1..2")
	case "pattern":
		return S("pattern", fmt.Sprintf("a%d*", i))
	case "enum":
		return S("enum", n("e"))
	case "bit":
		return S("bit", n("b"))
	case "when":
		return S("when", "1 = 1")
	case "yang-version":
		return S("yang-version", "1")
	case "namespace":
		return S("namespace", "urn:"+n("x"))
	case "prefix":
		return S("prefix", n("p"))
	case "organization", "contact", "description", "reference", "units", "presence", "error-message", "default":
		return S(kw, n("text "))
	case "error-app-tag":
		return S(kw, n("tag"))
	case "revision-date":
		return S(kw, "2020-01-01")
	case "status":
		return S(kw, "current")
	case "config", "mandatory", "require-instance", "yin-element":
		return S(kw, "true")
	case "ordered-by":
		return S(kw, "user")
	case "min-elements":
		return S(kw, "0")
	case "max-elements":
		return S(kw, "5")
	case "key":
		return S(kw, "k")
	case "unique":
		return S(kw, "k")
	case "value", "position":
		return S(kw, fmt.Sprint(i+1))
	case "path":
		return S(kw, "/a/b")
	case "base":
		return S(kw, n("i"))
	case "fraction-digits":
		return S(kw, "2")
	case "if-feature":
		return S(kw, n("f"))
	case "refine":
		return S(kw, n("x"))
	}
	panic("Minimal: unknown keyword " + kw)
}

// section of a module-level statement: 0 header, 1 linkage, 2 meta, 3 revision, 4 body
func Section(kw string) int {
	switch kw {
	case "yang-version", "namespace", "prefix", "belongs-to":
		return 0
	case "import", "include":
		return 1
	case "organization", "contact", "description", "reference":
		return 2
	case "revision":
		return 3
	}
	return 4
}

// SortSections orders the children of a module/submodule by section (stable).
func SortSections(m *Stmt) {
	var out []*Stmt
	for sec := 0; sec <= 4; sec++ {
		for _, k := range m.Kids {
			if Section(k.Kw) == sec {
				out = append(out, k)
			}
		}
	}
	m.Kids = out
}

// where a keyword can validly stand (one choice suffices)
var contextParent = map[string]string{
	"import": "module", "include": "module", "revision": "module", "typedef": "module", "container": "module", "leaf": "module",
	"leaf-list": "module", "list": "module", "choice": "module", "anyxml": "module", "grouping": "module", "uses": "module",
	"rpc": "module", "notification": "module", "augment": "module", "identity": "module", "extension": "module", "feature": "module",
	"deviation": "module", "belongs-to": "submodule", "type": "leaf", "case": "choice", "input": "rpc", "output": "rpc",
	"argument": "extension", "deviate": "deviation", "must": "container", "range": "type", "length": "type", "pattern": "type",
	"enum": "type", "bit": "type", "when": "container", "refine": "uses", "yang-version": "module", "namespace": "module",
	"prefix": "module", "organization": "module", "contact": "module", "description": "module", "reference": "module",
	"revision-date": "import", "default": "leaf", "units": "leaf", "status": "leaf", "config": "leaf", "mandatory": "leaf",
	"presence": "container", "ordered-by": "leaf-list", "min-elements": "leaf-list", "max-elements": "leaf-list", "key": "list",
	"unique": "list", "error-message": "must", "error-app-tag": "must", "value": "enum", "position": "bit", "path": "type",
	"require-instance": "type", "base": "identity", "fraction-digits": "type", "if-feature": "leaf", "yin-element": "argument",
}

// Context builds a valid text tree containing one instance P of keyword kw
// and returns (root, P).  P is a Minimal instance (index 0).
func Context(kw string) (root, p *Stmt) {
	if kw == "module" || kw == "submodule" {
		m := Minimal(kw, 0)
		return m, m
	}
	parentKw := contextParent[kw]
	root, parent := Context(parentKw)
	// reuse the parent's own required instance when it has one
	if ex := parent.Find(kw); ex != nil {
		return root, ex
	}
	p = Minimal(kw, 0)
	// keys: a key statement needs the list's existing "key": handled by Find above
	parent.Kids = append(parent.Kids, p)
	if parent.Kw == "module" || parent.Kw == "submodule" {
		SortSections(parent)
	}
	if kw == "type" && parentKw == "leaf" {
		// unreachable: leaf already has a type
	}
	return root, p
}

// ---------------------------------------------------------------- argument recognisers

func isAlpha(c byte) bool { return (c >= 'a' && c <= 'z') || (c >= 'A' && c <= 'Z') }
func isDig(c byte) bool   { return c >= '0' && c <= '9' }

func IsIdentifier(s string) bool {
	if s == "" || !(isAlpha(s[0]) || s[0] == '_') {
		return false
	}
	for i := 1; i < len(s); i++ {
		c := s[i]
		if !(isAlpha(c) || isDig(c) || c == '_' || c == '-' || c == '.') {
			return false
		}
	}
	if len(s) >= 3 && strings.EqualFold(s[:3], "xml") {
		return false
	}
	return true
}

func IsIdentifierRef(s string) bool {
	if i := strings.Index(s, ":"); i >= 0 {
		return IsIdentifier(s[:i]) && IsIdentifier(s[i+1:])
	}
	return IsIdentifier(s)
}

func allDigits(s string) bool {
	if s == "" {
		return false
	}
	for i := 0; i < len(s); i++ {
		if !isDig(s[i]) {
			return false
		}
	}
	return true
}

// non-negative-integer-value = "0" / positive-integer-value
func IsNonNegInt(s string) bool {
	return s == "0" || (allDigits(s) && s[0] != '0')
}

func IsInteger(s string) bool {
	if strings.HasPrefix(s, "-") {
		return IsNonNegInt(s[1:])
	}
	return IsNonNegInt(s)
}

func IsDecimal(s string) bool {
	i := strings.Index(s, ".")
	if i < 0 {
		return false
	}
	return IsInteger(s[:i]) && allDigits(s[i+1:])
}

func fitsBits(s string, bits int, signed bool) bool {
	neg := strings.HasPrefix(s, "-")
	d := strings.TrimPrefix(s, "-")
	d = strings.TrimLeft(d, "0")
	if len(d) > 20 {
		return false
	}
	var v uint64
	for i := 0; i < len(d); i++ {
		nv := v*10 + uint64(d[i]-'0')
		if nv < v || (v > (1<<63) && true) {
			return false
		}
		v = nv
	}
	if len(d) == 20 && d > "18446744073709551615" {
		return false
	}
	if !signed {
		if neg && v != 0 {
			return false
		}
		if bits == 32 {
			return v <= 4294967295
		}
		return true
	}
	if neg {
		return v <= 1<<(uint(bits)-1)
	}
	return v <= 1<<(uint(bits)-1)-1
}

func IsDate(s string) (lexical bool, calendar bool) {
	if len(s) != 10 || s[4] != '-' || s[7] != '-' || !allDigits(s[:4]) || !allDigits(s[5:7]) || !allDigits(s[8:]) {
		return false, false
	}
	mo := int(s[5]-'0')*10 + int(s[6]-'0')
	d := int(s[8]-'0')*10 + int(s[9]-'0')
	y := int(s[0]-'0')*1000 + int(s[1]-'0')*100 + int(s[2]-'0')*10 + int(s[3]-'0')
	if mo < 1 || mo > 12 || d < 1 {
		return true, false
	}
	dim := []int{31, 28, 31, 30, 31, 30, 31, 31, 30, 31, 30, 31}[mo-1]
	if mo == 2 && (y%4 == 0 && (y%100 != 0 || y%400 == 0)) {
		dim = 29
	}
	return true, d <= dim
}

func splitOptsep(s, sep string) []string {
	parts := strings.Split(s, sep)
	for i := range parts {
		parts[i] = strings.Trim(parts[i], " \t\r\n")
	}
	return parts
}

func isRangeArg(s string, boundary func(string) bool) bool {
	for _, part := range splitOptsep(s, "|") {
		bs := splitOptsep(part, "..")
		if len(bs) < 1 || len(bs) > 2 {
			return false
		}
		for _, b := range bs {
			if !(b == "min" || b == "max" || boundary(b)) {
				return false
			}
		}
	}
	return true
}

func IsRangeArg(s string) bool {
	return isRangeArg(s, func(b string) bool { return IsInteger(b) || IsDecimal(b) })
}

func IsLengthArg(s string) bool { return isRangeArg(s, IsNonNegInt) }

func fieldsSep(s string) []string {
	return strings.FieldsFunc(s, func(c rune) bool { return c == ' ' || c == '\t' || c == '\r' || c == '\n' })
}

func IsKeyArg(s string) bool {
	f := fieldsSep(s)
	if len(f) == 0 {
		return false
	}
	for _, x := range f {
		if !IsIdentifierRef(x) {
			return false
		}
	}
	// no leading/trailing separators in the ABNF
	return !strings.ContainsAny(s[:1], " \t\r\n") && !strings.ContainsAny(s[len(s)-1:], " \t\r\n")
}

func IsDescendantNodeid(s string) bool {
	if s == "" {
		return false
	}
	for _, p := range strings.Split(s, "/") {
		if !IsIdentifierRef(p) {
			return false
		}
	}
	return true
}

func IsAbsoluteNodeid(s string) bool {
	return strings.HasPrefix(s, "/") && IsDescendantNodeid(s[1:])
}

func IsUniqueArg(s string) bool {
	f := fieldsSep(s)
	if len(f) == 0 {
		return false
	}
	for _, x := range f {
		if !IsDescendantNodeid(x) {
			return false
		}
	}
	return !strings.ContainsAny(s[:1], " \t\r\n") && !strings.ContainsAny(s[len(s)-1:], " \t\r\n")
}

func IsFractionDigits(s string) bool {
	switch len(s) {
	case 1:
		return s[0] >= '1' && s[0] <= '9'
	case 2:
		return s[0] == '1' && s[1] >= '0' && s[1] <= '8'
	}
	return false
}
