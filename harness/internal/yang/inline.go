package yang

// Source-level expansion of uses / refine / augment: the reference side of
// C12.  Inline rewrites a module set into the equivalent set in which every
// grouping body and every augmenting node is written in place.

import (
	"fmt"
	"strings"
)

type modCtx struct {
	root     *Stmt
	name     string
	prefix   string
	byPrefix map[string]string // prefix -> module name (own prefix included)
	newImports []*Stmt
}

func newModCtx(m *Stmt) *modCtx {
	c := &modCtx{root: m, name: m.Arg, byPrefix: map[string]string{}}
	if p := m.Find("prefix"); p != nil {
		c.prefix = p.Arg
		c.byPrefix[p.Arg] = m.Arg
	}
	for _, imp := range m.FindAll("import") {
		c.byPrefix[imp.Find("prefix").Arg] = imp.Arg
	}
	return c
}

// prefixFor returns the prefix by which module modName is known in c, adding
// an import when there is none.
func (c *modCtx) prefixFor(modName string) string {
	if modName == c.name {
		return c.prefix
	}
	for p, m := range c.byPrefix {
		if m == modName {
			return p
		}
	}
	p := "inl-" + strings.ReplaceAll(modName, "-", "")
	c.byPrefix[p] = modName
	// added to the module after the expansion (the module's statement list
	// is being rewritten while this is called)
	c.newImports = append(c.newImports, S("import", modName, S("prefix", p)))
	return p
}

type Inliner struct {
	ms   *ModSet
	ctx  map[string]*modCtx
	Errs []string
	// AugmentedBy records, for the namespace fix-up of the dump, which module
	// introduced a node through augment: node name -> module name
	AugmentedBy map[string]string
	// InheritedWhens: the expressions of when statements that were written on a uses or an augment and
	// copied onto the nodes it introduces.  Their context node is the parent of those nodes (RFC 6020
	// 7.19.5), which YANG text cannot say for a when written on the node itself.
	InheritedWhens map[string]bool
	// Stats
	NUses, NRefines, NUsesAugments, NAugments, NNested int
	NCrossAugmentsKept                                 int
}

// splitRef splits "p:name" into (p, name).
func splitRef(s string) (string, string) {
	if i := strings.Index(s, ":"); i >= 0 {
		return s[:i], s[i+1:]
	}
	return "", s
}

// resolve gives the module in which the reference s, written in module c, is defined.
func (in *Inliner) resolve(c *modCtx, s string) (mod string, local string) {
	p, l := splitRef(s)
	if p == "" {
		return c.name, l
	}
	return c.byPrefix[p], l
}

var builtinTypes = map[string]bool{"binary": true, "bits": true, "boolean": true, "decimal64": true, "empty": true, "enumeration": true,
	"identityref": true, "instance-identifier": true, "int8": true, "int16": true, "int32": true, "int64": true, "leafref": true, "string": true,
	"uint8": true, "uint16": true, "uint32": true, "uint64": true, "union": true}

// requalify rewrites the identifier references of a subtree that was written
// in module from so that they mean the same when written in module to.
func (in *Inliner) requalify(s *Stmt, from, to *modCtx) {
	if from == to {
		return
	}
	s.Walk(func(x *Stmt, _ int) {
		switch x.Kw {
		case "type", "base", "if-feature":
			if x.Kw == "type" && builtinTypes[x.Arg] {
				return
			}
			mod, local := in.resolve(from, x.Arg)
			if mod == "" {
				return
			}
			x.Arg = to.prefixFor(mod) + ":" + local
		}
	}, 0)
}

func isDataDef(kw string) bool {
	switch kw {
	case "container", "leaf", "leaf-list", "list", "choice", "anyxml", "uses", "case":
		return true
	}
	return false
}

func (in *Inliner) findGrouping(c *modCtx, scope []*Stmt, ref string) (*Stmt, *modCtx) {
	mod, local := in.resolve(c, ref)
	if mod == c.name {
		// innermost scope first
		for i := len(scope) - 1; i >= 0; i-- {
			if g := scope[i].FindArg("grouping", local); g != nil {
				return g, c
			}
		}
	}
	mc := in.ctx[mod]
	if mc == nil {
		return nil, nil
	}
	if g := mc.root.FindArg("grouping", local); g != nil {
		return g, mc
	}
	return nil, nil
}

func findDescendant(nodes []*Stmt, path string) *Stmt {
	parts := strings.Split(path, "/")
	cur := nodes
	var hit *Stmt
	for _, p := range parts {
		_, name := splitRef(p)
		hit = nil
		// choices and cases are addressable nodes in schema node ids
		for _, n := range cur {
			if isDataDef(n.Kw) && n.Arg == name {
				hit = n
				break
			}
		}
		if hit == nil {
			return nil
		}
		cur = hit.Kids
	}
	return hit
}

func replaceSingle(target *Stmt, st *Stmt) {
	if old := target.Find(st.Kw); old != nil {
		for i, k := range target.Kids {
			if k == old {
				target.Kids[i] = st
				return
			}
		}
	}
	target.Kids = append(target.Kids, st)
}

// expandNode expands every uses below parent (in place).
func (in *Inliner) expandKids(c *modCtx, parent *Stmt, scope []*Stmt, depth int) {
	if depth > 40 {
		in.Errs = append(in.Errs, "expansion too deep (cycle?)")
		return
	}
	scope = append(scope, parent)
	var out []*Stmt
	for _, k := range parent.Kids {
		if k.Kw != "uses" {
			if k.Kw != "grouping" && k.Kw != "typedef" {
				in.expandKids(c, k, scope, depth+1)
			}
			out = append(out, k)
			continue
		}
		in.NUses++
		g, gc := in.findGrouping(c, scope, k.Arg)
		if g == nil {
			in.Errs = append(in.Errs, "unknown grouping "+k.Arg)
			continue
		}
		// clone the grouping's data definitions
		var nodes []*Stmt
		for _, gk := range g.Kids {
			if isDataDef(gk.Kw) {
				nodes = append(nodes, gk.Clone())
			}
		}
		// expand nested uses inside the clone, in the grouping's own module context
		holder := &Stmt{Kw: "grouping", Arg: g.Arg, Kids: nodes}
		if len(holder.FindAll("uses")) > 0 {
			in.NNested++
		}
		in.expandKids(gc, holder, []*Stmt{gc.root, g}, depth+1)
		nodes = holder.Kids
		for _, n := range nodes {
			in.requalify(n, gc, c)
		}
		// refinements
		for _, r := range k.FindAll("refine") {
			in.NRefines++
			t := findDescendant(nodes, r.Arg)
			if t == nil {
				in.Errs = append(in.Errs, "refine target not found: "+r.Arg)
				continue
			}
			for _, st := range r.Kids {
				st = st.Clone()
				switch st.Kw {
				case "must", "if-feature":
					t.Kids = append(t.Kids, st)
				default:
					replaceSingle(t, st)
				}
			}
		}
		// augments inside the uses
		for _, a := range k.FindAll("augment") {
			in.NUsesAugments++
			t := findDescendant(nodes, a.Arg)
			if t == nil {
				in.Errs = append(in.Errs, "uses-augment target not found: "+a.Arg)
				continue
			}
			for _, an := range a.Kids {
				if !isDataDef(an.Kw) {
					continue
				}
				an = an.Clone()
				in.inherit(a, an)
				t.Kids = append(t.Kids, an)
			}
			in.expandKids(c, t, scope, depth+1)
		}
		// when / if-feature / status of the uses apply to every node it introduces
		for _, n := range nodes {
			in.inherit(k, n)
		}
		out = append(out, nodes...)
	}
	parent.Kids = out
}

// inherit copies if-feature, when and status of a uses/augment onto a node it introduces.
func (in *Inliner) inherit(from, to *Stmt) {
	if in.InheritedWhens == nil {
		in.InheritedWhens = map[string]bool{}
	}
	for _, w := range from.FindAll("when") {
		in.InheritedWhens[w.Arg] = true
	}
	for _, f := range from.FindAll("if-feature") {
		to.Kids = append(to.Kids, f.Clone())
	}
	for _, w := range from.FindAll("when") {
		to.Kids = append(to.Kids, w.Clone())
	}
	if st := from.Find("status"); st != nil && to.Find("status") == nil {
		to.Kids = append(to.Kids, st.Clone())
	}
}

func (in *Inliner) findTarget(path string, c *modCtx) (*Stmt, *modCtx) {
	parts := strings.Split(strings.TrimPrefix(path, "/"), "/")
	var cur []*Stmt
	var hit *Stmt
	var tc *modCtx
	for i, p := range parts {
		pf, name := splitRef(p)
		if i == 0 {
			mod := c.byPrefix[pf]
			tc = in.ctx[mod]
			if tc == nil {
				return nil, nil
			}
			cur = tc.root.Kids
		}
		hit = nil
		for _, n := range cur {
			if isDataDef(n.Kw) && n.Arg == name {
				hit = n
				break
			}
		}
		if hit == nil {
			return nil, nil
		}
		cur = hit.Kids
	}
	return hit, tc
}

// Inline returns the expanded copy of ms.
func Inline(ms *ModSet) (*ModSet, *Inliner) {
	out := ms.Clone()
	in := &Inliner{ms: out, ctx: map[string]*modCtx{}, AugmentedBy: map[string]string{}}
	for _, m := range out.Mods {
		in.ctx[m.Arg] = newModCtx(m)
	}
	// 1. expand uses everywhere (module order: as given; groupings are looked up on demand)
	for _, m := range out.Mods {
		c := in.ctx[m.Arg]
		in.expandKids(c, m, nil, 0)
	}
	// 2. apply module-level augments in module order
	for _, m := range out.Mods {
		c := in.ctx[m.Arg]
		for _, a := range m.FindAll("augment") {
			in.NAugments++
			t, tc := in.findTarget(a.Arg, c)
			if t == nil {
				in.Errs = append(in.Errs, "augment target not found: "+a.Arg)
				continue
			}
			if tc != c {
				// A cross-module augment cannot be written in place without
				// making the target module import the augmenting one (an
				// import cycle); it stays an augment (its body is expanded).
				in.NCrossAugmentsKept++
				continue
			}
			for _, an := range a.Kids {
				if !isDataDef(an.Kw) {
					continue
				}
				n := an.Clone()
				in.inherit(a, n)
				in.requalify(n, c, tc)
				t.Kids = append(t.Kids, n)
				in.AugmentedBy[n.Arg] = m.Arg
			}
			m.Remove(a)
		}
	}
	for _, m := range out.Mods {
		c := in.ctx[m.Arg]
		if len(c.newImports) > 0 {
			m.Add(c.newImports...)
			SortSections(m)
		}
	}
	// 3. drop the groupings (all uses are gone)
	for _, m := range out.Mods {
		m.Walk(func(x *Stmt, _ int) {
			var kids []*Stmt
			for _, k := range x.Kids {
				if k.Kw != "grouping" {
					kids = append(kids, k)
				}
			}
			x.Kids = kids
		}, 0)
	}
	if len(in.Errs) > 0 {
		in.Errs = append(in.Errs, fmt.Sprintf("(%d problems)", len(in.Errs)))
	}
	return out, in
}
