package xp

// R-XP: reference evaluator for the scalar part of XPath 1.0, written from the
// W3C recommendation (sections 3.4, 3.5, 4.1-4.4).  Node-sets are modelled as
// the ordered list of the string-values of their nodes, which is all the
// scalar semantics can observe.

import (
	"math"
	"strconv"
	"strings"
)

type Val struct {
	T  Type
	N  float64
	S  string
	B  bool
	NS []string
}

func VNum(f float64) Val   { return Val{T: TNum, N: f} }
func VStr(s string) Val    { return Val{T: TStr, S: s} }
func VBool(b bool) Val     { return Val{T: TBool, B: b} }
func VNS(ss []string) Val  { return Val{T: TNS, NS: ss} }

func (v Val) String() string {
	switch v.T {
	case TNum:
		return "num(" + strconv.FormatFloat(v.N, 'g', -1, 64) + signbit(v.N) + ")"
	case TStr:
		return "str(" + strconv.Quote(v.S) + ")"
	case TBool:
		return "bool(" + strconv.FormatBool(v.B) + ")"
	default:
		return "ns" + strconv.Quote(strings.Join(v.NS, "|")) + "#" + strconv.Itoa(len(v.NS))
	}
}

func signbit(f float64) string {
	if f == 0 && math.Signbit(f) {
		return "[-0]"
	}
	return ""
}

// SameVal: numbers by bit pattern except that all NaNs are equal.
func SameVal(a, b Val) bool {
	if a.T != b.T {
		return false
	}
	switch a.T {
	case TNum:
		if math.IsNaN(a.N) || math.IsNaN(b.N) {
			return math.IsNaN(a.N) && math.IsNaN(b.N)
		}
		return math.Float64bits(a.N) == math.Float64bits(b.N)
	case TStr:
		return a.S == b.S
	case TBool:
		return a.B == b.B
	default:
		if len(a.NS) != len(b.NS) {
			return false
		}
		for i := range a.NS {
			if a.NS[i] != b.NS[i] {
				return false
			}
		}
		return true
	}
}

func isXMLSpace(c rune) bool { return c == 0x20 || c == 0x9 || c == 0xD || c == 0xA }

// StringToNumber implements the number() conversion of a string (§4.4).
func StringToNumber(s string) float64 {
	t := strings.TrimFunc(s, isXMLSpace)
	u := t
	if strings.HasPrefix(u, "-") {
		u = u[1:]
	}
	// Number ::= Digits ('.' Digits?)? | '.' Digits
	i := 0
	for i < len(u) && u[i] >= '0' && u[i] <= '9' {
		i++
	}
	intDigits := i
	fracDigits := 0
	if i < len(u) && u[i] == '.' {
		i++
		j := i
		for i < len(u) && u[i] >= '0' && u[i] <= '9' {
			i++
		}
		fracDigits = i - j
	}
	if i != len(u) || (intDigits == 0 && fracDigits == 0) {
		return math.NaN()
	}
	f, err := strconv.ParseFloat(t, 64)
	if err != nil {
		// only range errors are possible here: ParseFloat returns ±Inf, the
		// nearest IEEE value under round-to-nearest
		return f
	}
	return f
}

// NumberToString implements string() of a number (§4.2).
func NumberToString(f float64) string {
	switch {
	case math.IsNaN(f):
		return "NaN"
	case f == 0:
		return "0"
	case math.IsInf(f, 1):
		return "Infinity"
	case math.IsInf(f, -1):
		return "-Infinity"
	}
	return strconv.FormatFloat(f, 'f', -1, 64)
}

func ToString(v Val) string {
	switch v.T {
	case TStr:
		return v.S
	case TNum:
		return NumberToString(v.N)
	case TBool:
		if v.B {
			return "true"
		}
		return "false"
	default:
		if len(v.NS) == 0 {
			return ""
		}
		return v.NS[0]
	}
}

func ToNumber(v Val) float64 {
	switch v.T {
	case TNum:
		return v.N
	case TBool:
		if v.B {
			return 1
		}
		return 0
	default:
		return StringToNumber(ToString(v))
	}
}

func ToBool(v Val) bool {
	switch v.T {
	case TBool:
		return v.B
	case TNum:
		return v.N != 0 && !math.IsNaN(v.N)
	case TStr:
		return len(v.S) > 0
	default:
		return len(v.NS) > 0
	}
}

// XRound implements round() (§4.4).
func XRound(x float64) float64 {
	if math.IsNaN(x) || math.IsInf(x, 0) || x == 0 {
		return x
	}
	if x < 0 && x >= -0.5 {
		return math.Copysign(0, -1)
	}
	f := math.Floor(x)
	if x-f >= 0.5 {
		return f + 1
	}
	return f
}

// Conv is the set of implicit conversions used by operators and functions.
// Ref is the XPath 1.0 definition; a checker may substitute conversions
// measured on the implementation to find out whether a disagreement of an
// operator is fully explained by a (separately reported) conversion defect.
type Conv struct {
	Num    func(Val) float64
	Str    func(Val) string
	Bool   func(Val) bool
	StrNum func(string) float64 // number() of a node's string-value
}

var Ref = &Conv{Num: ToNumber, Str: ToString, Bool: ToBool, StrNum: StringToNumber}

func cmpNum(op string, a, b float64) bool {
	switch op {
	case "=":
		return a == b
	case "!=":
		return a != b
	case "<":
		return a < b
	case "<=":
		return a <= b
	case ">":
		return a > b
	case ">=":
		return a >= b
	}
	return false
}

func isRel(op string) bool { return op == "<" || op == "<=" || op == ">" || op == ">=" }

// Compare implements §3.4.
func Compare(cv *Conv, op string, a, b Val) bool {
	switch {
	case a.T == TNS && b.T == TNS:
		for _, x := range a.NS {
			for _, y := range b.NS {
				if isRel(op) {
					if cmpNum(op, cv.StrNum(x), cv.StrNum(y)) {
						return true
					}
				} else if (op == "=") == (x == y) {
					return true
				}
			}
		}
		return false
	case a.T == TNS || b.T == TNS:
		ns, other, nsLeft := a, b, true
		if b.T == TNS {
			ns, other, nsLeft = b, a, false
		}
		switch other.T {
		case TBool:
			x, y := VBool(cv.Bool(ns)), other
			if !nsLeft {
				x, y = y, x
			}
			return Compare(cv, op, x, y)
		case TNum:
			for _, s := range ns.NS {
				x, y := cv.StrNum(s), other.N
				if !nsLeft {
					x, y = y, x
				}
				if cmpNum(op, x, y) {
					return true
				}
			}
			return false
		default:
			for _, s := range ns.NS {
				x, y := VStr(s), other
				if !nsLeft {
					x, y = y, x
				}
				if Compare(cv, op, x, y) {
					return true
				}
			}
			return false
		}
	}
	if isRel(op) {
		return cmpNum(op, cv.Num(a), cv.Num(b))
	}
	switch {
	case a.T == TBool || b.T == TBool:
		return (op == "=") == (cv.Bool(a) == cv.Bool(b))
	case a.T == TNum || b.T == TNum:
		return cmpNum(op, cv.Num(a), cv.Num(b))
	default:
		return (op == "=") == (cv.Str(a) == cv.Str(b))
	}
}

// ApplyBin applies a binary operator to already evaluated operands.
func ApplyBin(cv *Conv, op string, a, b Val) Val {
	switch op {
	case "or":
		return VBool(cv.Bool(a) || cv.Bool(b))
	case "and":
		return VBool(cv.Bool(a) && cv.Bool(b))
	case "=", "!=", "<", "<=", ">", ">=":
		return VBool(Compare(cv, op, a, b))
	case "+":
		return VNum(cv.Num(a) + cv.Num(b))
	case "-":
		return VNum(cv.Num(a) - cv.Num(b))
	case "*":
		return VNum(cv.Num(a) * cv.Num(b))
	case "div":
		return VNum(cv.Num(a) / cv.Num(b))
	case "mod":
		return VNum(math.Mod(cv.Num(a), cv.Num(b)))
	}
	panic("ref: unknown operator " + op)
}

// ApplyFn applies a core function to already evaluated arguments.
func ApplyFn(cv *Conv, fn string, a []Val) Val {
	switch fn {
	case "true":
		return VBool(true)
	case "false":
		return VBool(false)
	case "last", "position":
		// top-level YANG context: position 1 of 1
		return VNum(1)
	case "boolean":
		return VBool(cv.Bool(a[0]))
	case "not":
		return VBool(!cv.Bool(a[0]))
	case "number":
		return VNum(cv.Num(a[0]))
	case "string":
		return VStr(cv.Str(a[0]))
	case "floor":
		return VNum(math.Floor(cv.Num(a[0])))
	case "ceiling":
		return VNum(math.Ceil(cv.Num(a[0])))
	case "round":
		return VNum(XRound(cv.Num(a[0])))
	case "concat":
		return VStr(cv.Str(a[0]) + cv.Str(a[1]))
	case "starts-with":
		return VBool(strings.HasPrefix(cv.Str(a[0]), cv.Str(a[1])))
	case "contains":
		return VBool(strings.Contains(cv.Str(a[0]), cv.Str(a[1])))
	case "substring-before":
		s, t := cv.Str(a[0]), cv.Str(a[1])
		if i := strings.Index(s, t); i >= 0 {
			return VStr(s[:i])
		}
		return VStr("")
	case "substring-after":
		s, t := cv.Str(a[0]), cv.Str(a[1])
		if i := strings.Index(s, t); i >= 0 {
			return VStr(s[i+len(t):])
		}
		return VStr("")
	case "string-length":
		return VNum(float64(len([]rune(cv.Str(a[0])))))
	case "substring":
		s := []rune(cv.Str(a[0]))
		p := XRound(cv.Num(a[1]))
		l := XRound(cv.Num(a[2]))
		var out []rune
		for i, c := range s {
			pos := float64(i + 1)
			if pos >= p && pos < p+l {
				out = append(out, c)
			}
		}
		return VStr(string(out))
	case "normalize-space":
		fields := strings.FieldsFunc(cv.Str(a[0]), isXMLSpace)
		return VStr(strings.Join(fields, " "))
	case "translate":
		s, from, to := []rune(cv.Str(a[0])), []rune(cv.Str(a[1])), []rune(cv.Str(a[2]))
		var out []rune
		for _, c := range s {
			idx := -1
			for i, f := range from {
				if f == c {
					idx = i
					break
				}
			}
			switch {
			case idx < 0:
				out = append(out, c)
			case idx < len(to):
				out = append(out, to[idx])
			}
		}
		return VStr(string(out))
	}
	panic("ref: unknown function " + fn)
}

// Eval evaluates a whole expression; env gives the node-set (string-values)
// each path expression designates, keyed by the path node.
func Eval(n *Node, env func(*Node) Val) Val {
	switch n.Kind {
	case KNum:
		return VNum(n.NumValue())
	case KLit:
		return VStr(n.Lit)
	case KParen:
		return Eval(n.Args[0], env)
	case KNeg:
		return VNum(-ToNumber(Eval(n.Args[0], env)))
	case KPath:
		return env(n)
	case KBin:
		return ApplyBin(Ref, n.Op, Eval(n.Args[0], env), Eval(n.Args[1], env))
	case KFunc:
		args := make([]Val, len(n.Args))
		for i, a := range n.Args {
			args[i] = Eval(a, env)
		}
		return ApplyFn(Ref, n.Fn, args)
	}
	panic("ref: unknown node kind")
}

// ---------------------------------------------------------------- value classes (for finding classes)

func NumClass(f float64) string {
	switch {
	case math.IsNaN(f):
		return "NaN"
	case f == 0 && math.Signbit(f):
		return "-0"
	case f == 0:
		return "+0"
	case math.IsInf(f, 1):
		return "+Inf"
	case math.IsInf(f, -1):
		return "-Inf"
	}
	a := math.Abs(f)
	sign := ""
	if f < 0 {
		sign = "neg-"
	}
	switch {
	case a >= 1e21:
		return sign + "huge>=1e21"
	case a < 1e-6:
		return sign + "tiny<1e-6"
	case a == math.Trunc(a):
		if a >= 1<<53 {
			return sign + "int>=2^53"
		}
		if a >= 1<<52 {
			return sign + "int>=2^52"
		}
		return sign + "int"
	case a-math.Floor(a) == 0.5:
		return sign + "half"
	}
	if len(strconv.FormatFloat(a, 'f', -1, 64)) > 16 {
		return sign + "frac-long"
	}
	return sign + "frac"
}

func StrClass(s string) string {
	if s == "" {
		return "empty"
	}
	ascii := true
	for _, c := range s {
		if c > 127 {
			ascii = false
		}
	}
	ws := strings.TrimFunc(s, isXMLSpace) == ""
	t := strings.TrimFunc(s, isXMLSpace)
	num := !math.IsNaN(StringToNumber(s))
	_, perr := strconv.ParseFloat(strings.TrimSpace(s), 64)
	if ne, ok := perr.(*strconv.NumError); ok && ne.Err == strconv.ErrRange {
		perr = nil // Go float syntax, merely out of range
	}
	switch {
	case ws:
		return "xml-ws-only"
	case num && t != s:
		return "numeric-padded"
	case num:
		return "numeric"
	case perr == nil:
		return "go-float-not-xpath" // 1e3, +1, 0x10, Inf, NaN ...
	case !ascii:
		return "non-ascii"
	case strings.ContainsAny(s, " \t\r\n"):
		return "ascii-with-ws"
	}
	return "ascii"
}

func ValClass(v Val) string {
	switch v.T {
	case TNum:
		return "num:" + NumClass(v.N)
	case TStr:
		return "str:" + StrClass(v.S)
	case TBool:
		return "bool"
	default:
		switch len(v.NS) {
		case 0:
			return "ns:absent"
		case 1:
			return "ns:leaf:" + StrClass(v.NS[0])
		}
		return "ns:leaf-list"
	}
}
