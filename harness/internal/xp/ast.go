// Package xp holds the harness' own model of the supported XPath subset: an
// AST, renderers, a reference evaluator written from the XPath 1.0
// recommendation (R-XP), generators, and the recording mock data tree.
// Nothing here shares code with the repository under test.
package xp

import (
	"strconv"
	"strings"
)

type Type int

const (
	TNum Type = iota
	TStr
	TBool
	TNS // node-set (location path)
)

func (t Type) String() string { return [...]string{"num", "str", "bool", "ns"}[t] }

type Kind int

const (
	KNum Kind = iota
	KLit
	KBin
	KNeg
	KFunc
	KPath
	KParen // explicit parentheses around Args[0] (used by C03 variants)
)

// Node is an expression node.
type Node struct {
	Kind    Kind
	NumText string // source text of a number token
	Lit     string
	Quote   byte
	Op      string // or and = != < <= > >= + - * div mod |
	Fn      string
	Args    []*Node
	Path    *Path
}

type StepKind int

const (
	SName StepKind = iota
	SDotDot
	SDot
)

type Pred struct {
	KeyPrefix string
	Key       string
	Operand   *Node
}

type Step struct {
	Kind   StepKind
	Prefix string
	Name   string
	Preds  []Pred
}

// Path roots.
const (
	RootRel     = "rel"
	RootAbs     = "abs"
	RootCurrent = "current"
	RootDeref   = "deref"
)

type Path struct {
	Root     string
	DerefArg *Path
	Steps    []Step
}

// ---------------------------------------------------------------- static types

var FuncRet = map[string]Type{
	"boolean": TBool, "ceiling": TNum, "concat": TStr, "contains": TBool, "false": TBool,
	"floor": TNum, "last": TNum, "normalize-space": TStr, "not": TBool, "number": TNum,
	"round": TNum, "position": TNum, "starts-with": TBool, "string": TStr,
	"string-length": TNum, "substring": TStr, "substring-after": TStr,
	"substring-before": TStr, "translate": TStr, "true": TBool,
}

// FuncArgs: declared parameter types; -1 = object (any).
var FuncArgs = map[string][]int{
	"boolean": {-1}, "ceiling": {int(TNum)}, "concat": {int(TStr), int(TStr)},
	"contains": {int(TStr), int(TStr)}, "false": {}, "floor": {int(TNum)}, "last": {},
	"normalize-space": {int(TStr)}, "not": {int(TBool)}, "number": {-1}, "round": {int(TNum)},
	"position": {}, "starts-with": {int(TStr), int(TStr)}, "string": {-1},
	"string-length": {int(TStr)}, "substring": {int(TStr), int(TNum), int(TNum)},
	"substring-after": {int(TStr), int(TStr)}, "substring-before": {int(TStr), int(TStr)},
	"translate": {int(TStr), int(TStr), int(TStr)}, "true": {},
}

func (n *Node) Type() Type {
	switch n.Kind {
	case KNum, KNeg:
		return TNum
	case KLit:
		return TStr
	case KPath:
		return TNS
	case KParen:
		return n.Args[0].Type()
	case KFunc:
		return FuncRet[n.Fn]
	case KBin:
		switch n.Op {
		case "+", "-", "*", "div", "mod":
			return TNum
		case "|":
			return TNS
		default:
			return TBool
		}
	}
	return TNum
}

// ---------------------------------------------------------------- constructors

func Num(text string) *Node { return &Node{Kind: KNum, NumText: text} }
func Lit(s string) *Node {
	q := byte('\'')
	if strings.Contains(s, "'") {
		q = '"'
	}
	return &Node{Kind: KLit, Lit: s, Quote: q}
}
func Bin(op string, a, b *Node) *Node    { return &Node{Kind: KBin, Op: op, Args: []*Node{a, b}} }
func Neg(a *Node) *Node                  { return &Node{Kind: KNeg, Args: []*Node{a}} }
func Fn(name string, args ...*Node) *Node { return &Node{Kind: KFunc, Fn: name, Args: args} }
func PathNode(p *Path) *Node             { return &Node{Kind: KPath, Path: p} }
func Paren(a *Node) *Node                { return &Node{Kind: KParen, Args: []*Node{a}} }
func RelName(names ...string) *Node {
	p := &Path{Root: RootRel}
	for _, n := range names {
		p.Steps = append(p.Steps, Step{Kind: SName, Name: n})
	}
	return PathNode(p)
}

func (n *Node) NumValue() float64 {
	v, _ := strconv.ParseFloat(n.NumText, 64)
	return v
}

// ---------------------------------------------------------------- rendering

// Prec returns the XPath 1.0 precedence level of a node's top operator
// (higher binds tighter).
func Prec(n *Node) int {
	switch n.Kind {
	case KBin:
		switch n.Op {
		case "or":
			return 1
		case "and":
			return 2
		case "=", "!=":
			return 3
		case "<", "<=", ">", ">=":
			return 4
		case "+", "-":
			return 5
		case "*", "div", "mod":
			return 6
		case "|":
			return 8
		}
	case KNeg:
		return 7
	}
	return 9
}

type RenderMode int

const (
	RenderFull RenderMode = iota // parenthesise every compound operand
	RenderMin                    // minimum parentheses implied by precedence/left associativity
)

// Render renders the expression.  Binary operators are surrounded by single
// blanks (so that "a - b" never lexes as the name "a-b").
func Render(n *Node, mode RenderMode) string {
	var b strings.Builder
	render(&b, n, mode)
	return b.String()
}

func needParen(parent, child *Node, right bool, mode RenderMode) bool {
	if child.Kind != KBin && child.Kind != KNeg {
		return false
	}
	if mode == RenderFull {
		return true
	}
	pp, cp := Prec(parent), Prec(child)
	if parent.Kind == KNeg {
		// "- -x" is fine (UnaryExpr: '-' UnaryExpr); a binary child needs parens
		// unless it is a union.
		return child.Kind == KBin && cp < 8
	}
	if cp < pp {
		return true
	}
	if cp == pp && right {
		return true // left associative
	}
	if parent.Op == "|" && !(child.Kind == KBin && child.Op == "|" && !right) {
		// operands of | must be PathExprs (a union on the left is one: a | b | c)
		return true
	}
	return false
}

func render(b *strings.Builder, n *Node, mode RenderMode) {
	switch n.Kind {
	case KNum:
		b.WriteString(n.NumText)
	case KLit:
		b.WriteByte(n.Quote)
		b.WriteString(n.Lit)
		b.WriteByte(n.Quote)
	case KParen:
		b.WriteString("(")
		render(b, n.Args[0], mode)
		b.WriteString(")")
	case KNeg:
		b.WriteString("- ")
		c := n.Args[0]
		if needParen(n, c, false, mode) {
			b.WriteString("(")
			render(b, c, mode)
			b.WriteString(")")
		} else {
			render(b, c, mode)
		}
	case KBin:
		for i, c := range n.Args {
			if i > 0 {
				b.WriteString(" " + n.Op + " ")
			}
			if needParen(n, c, i > 0, mode) {
				b.WriteString("(")
				render(b, c, mode)
				b.WriteString(")")
			} else {
				render(b, c, mode)
			}
		}
	case KFunc:
		b.WriteString(n.Fn)
		b.WriteString("(")
		for i, a := range n.Args {
			if i > 0 {
				b.WriteString(", ")
			}
			render(b, a, mode)
		}
		b.WriteString(")")
	case KPath:
		renderPath(b, n.Path, mode)
	}
}

func renderPath(b *strings.Builder, p *Path, mode RenderMode) {
	first := true
	switch p.Root {
	case RootAbs:
		b.WriteString("/")
	case RootCurrent:
		b.WriteString("current()")
		first = false
	case RootDeref:
		b.WriteString("deref(")
		renderPath(b, p.DerefArg, mode)
		b.WriteString(")")
		first = false
	}
	for _, s := range p.Steps {
		if !first {
			b.WriteString("/")
		}
		first = false
		switch s.Kind {
		case SDot:
			b.WriteString(".")
		case SDotDot:
			b.WriteString("..")
		case SName:
			if s.Prefix != "" {
				b.WriteString(s.Prefix + ":")
			}
			b.WriteString(s.Name)
		}
		for _, pr := range s.Preds {
			b.WriteString("[")
			if pr.KeyPrefix != "" {
				b.WriteString(pr.KeyPrefix + ":")
			}
			b.WriteString(pr.Key)
			b.WriteString(" = ")
			render(b, pr.Operand, mode)
			b.WriteString("]")
		}
	}
}

// Walk visits every expression node (not descending into predicate operands
// unless intoPreds).
func Walk(n *Node, intoPreds bool, f func(*Node)) {
	f(n)
	for _, a := range n.Args {
		Walk(a, intoPreds, f)
	}
	if n.Kind == KPath && intoPreds {
		walkPath(n.Path, f)
	}
}

func walkPath(p *Path, f func(*Node)) {
	if p.DerefArg != nil {
		walkPath(p.DerefArg, f)
	}
	for _, s := range p.Steps {
		for _, pr := range s.Preds {
			Walk(pr.Operand, true, f)
		}
	}
}

func CountOps(n *Node) int {
	c := 0
	Walk(n, false, func(x *Node) {
		if x.Kind == KBin || x.Kind == KNeg || x.Kind == KFunc {
			c++
		}
	})
	return c
}

// ---------------------------------------------------------------- token rendering (C03)

// RenderTokens renders the expression as a token list (a QName is one token).
func RenderTokens(n *Node, mode RenderMode) []string {
	var out []string
	tokens(&out, n, mode)
	return out
}

func tokens(out *[]string, n *Node, mode RenderMode) {
	emit := func(s ...string) { *out = append(*out, s...) }
	sub := func(parent, c *Node, right bool) {
		if needParen(parent, c, right, mode) {
			emit("(")
			tokens(out, c, mode)
			emit(")")
		} else {
			tokens(out, c, mode)
		}
	}
	switch n.Kind {
	case KNum:
		emit(n.NumText)
	case KLit:
		emit(string(n.Quote) + n.Lit + string(n.Quote))
	case KParen:
		emit("(")
		tokens(out, n.Args[0], mode)
		emit(")")
	case KNeg:
		emit("-")
		sub(n, n.Args[0], false)
	case KBin:
		sub(n, n.Args[0], false)
		emit(n.Op)
		sub(n, n.Args[1], true)
	case KFunc:
		emit(n.Fn, "(")
		for i, a := range n.Args {
			if i > 0 {
				emit(",")
			}
			tokens(out, a, mode)
		}
		emit(")")
	case KPath:
		pathTokens(out, n.Path, mode)
	}
}

func pathTokens(out *[]string, p *Path, mode RenderMode) {
	emit := func(s ...string) { *out = append(*out, s...) }
	first := true
	switch p.Root {
	case RootAbs:
		emit("/")
	case RootCurrent:
		emit("current", "(", ")")
		first = false
	case RootDeref:
		emit("deref", "(")
		pathTokens(out, p.DerefArg, mode)
		emit(")")
		first = false
	}
	for _, s := range p.Steps {
		if !first {
			emit("/")
		}
		first = false
		switch s.Kind {
		case SDot:
			emit(".")
		case SDotDot:
			emit("..")
		case SName:
			if s.Prefix != "" {
				emit(s.Prefix + ":" + s.Name)
			} else {
				emit(s.Name)
			}
		}
		for _, pr := range s.Preds {
			emit("[")
			if pr.KeyPrefix != "" {
				emit(pr.KeyPrefix + ":" + pr.Key)
			} else {
				emit(pr.Key)
			}
			emit("=")
			tokens(out, pr.Operand, mode)
			emit("]")
		}
	}
}

func nameish(c byte) bool {
	return c >= 0x80 || c == '_' || c == '-' || c == '.' || c == ':' ||
		(c >= '0' && c <= '9') || (c >= 'a' && c <= 'z') || (c >= 'A' && c <= 'Z')
}

// NeedsSeparator is a conservative predicate: true when removing the
// whitespace between two adjacent tokens could merge them or change how
// either is tokenised.
func NeedsSeparator(a, b string) bool {
	if a == "" || b == "" {
		return false
	}
	la, fb := a[len(a)-1], b[0]
	if la == '\'' || la == '"' || fb == '\'' || fb == '"' {
		return false
	}
	if a == "-" {
		// the minus sign is a token of its own whatever follows: -3, -.5, -.., -a, --1
		return false
	}
	if nameish(la) && nameish(fb) {
		return true
	}
	// "/" "/" -> "//", "<" "=" -> "<=", "!" "=", ":" ":", "*" after name is fine
	if (la == '/' && fb == '/') || ((la == '<' || la == '>' || la == '!') && fb == '=') {
		return true
	}
	// a name directly followed by "(" would turn into a function call / node type test
	if nameish(la) && fb == '(' {
		return true
	}
	// a name directly followed by "*" or ":" could form prefix:* / a QName
	if nameish(la) && (fb == '*' || fb == ':') {
		return true
	}
	if la == '*' && nameish(fb) {
		return true
	}
	return false
}
