package xp

// R-TOK / R-GR: reference recognisers for the supported XPath subset (XPath
// 1.0 section 3.7 tokenisation + grammar of sections 2, 3 without axes, '@',
// '//', node-type tests and variables) and for the RFC 6020 path-arg
// language.  Written from the recommendations, no code shared with the repo.

import (
	"strings"
	"unicode/utf8"
)

type Verdict int

const (
	Reject Verdict = iota
	Accept
	Unasserted // ambiguous in the property; neither verdict is asserted
)

func (v Verdict) String() string { return [...]string{"reject", "accept", "unasserted"}[v] }

type tokKind int

const (
	tEOF tokKind = iota
	tLParen
	tRParen
	tLBrack
	tRBrack
	tDot
	tDotDot
	tAt
	tComma
	tDblColon
	tNameTest // '*' | NCName:* | QName
	tNodeType
	tOperator // value = operator text
	tFuncName
	tAxisName
	tLiteral
	tNumber
	tVarRef
)

type rtok struct {
	kind       tokKind
	text       string
	prefix     string
	start, end int // rune offsets
}

func isNameStart(c rune) bool {
	switch {
	case c >= 'A' && c <= 'Z', c == '_', c >= 'a' && c <= 'z',
		c >= 0xC0 && c <= 0xD6, c >= 0xD8 && c <= 0xF6, c >= 0xF8 && c <= 0x2FF,
		c >= 0x370 && c <= 0x37D, c >= 0x37F && c <= 0x1FFF, c >= 0x200C && c <= 0x200D,
		c >= 0x2070 && c <= 0x218F, c >= 0x2C00 && c <= 0x2FEF, c >= 0x3001 && c <= 0xD7FF,
		c >= 0xF900 && c <= 0xFDCF, c >= 0xFDF0 && c <= 0xFFFD, c >= 0x10000 && c <= 0xEFFFF:
		return true
	}
	return false
}

func isNameChar(c rune) bool {
	return isNameStart(c) || c == '-' || c == '.' || (c >= '0' && c <= '9') || c == 0xB7 ||
		(c >= 0x300 && c <= 0x36F) || (c >= 0x203F && c <= 0x2040)
}

// Registered functions of the supported subset and their declared arity.
var RegisteredArity = map[string]int{
	"boolean": 1, "ceiling": 1, "concat": 2, "contains": 2, "re-match": 2, "count": 1, "current": 0,
	"false": 0, "floor": 1, "last": 0, "local-name": 1, "normalize-space": 1, "not": 1, "number": 1,
	"round": 1, "position": 0, "starts-with": 2, "string": 1, "string-length": 1, "substring": 3,
	"substring-after": 2, "substring-before": 2, "sum": 1, "translate": 3, "true": 0, "deref": 1,
}

var nodeTypes = map[string]bool{"comment": true, "text": true, "processing-instruction": true, "node": true}
var axisNames = map[string]bool{"ancestor": true, "ancestor-or-self": true, "attribute": true, "child": true, "descendant": true,
	"descendant-or-self": true, "following": true, "following-sibling": true, "namespace": true, "parent": true,
	"preceding": true, "preceding-sibling": true, "self": true}

type rlexer struct {
	rs         []rune
	pos        int
	toks       []rtok
	unasserted bool
	knownPfx   func(string) bool
	lastStart  int
}

func (l *rlexer) skipWS() {
	for l.pos < len(l.rs) && isXMLSpace(l.rs[l.pos]) {
		l.pos++
	}
}

func (l *rlexer) peekAfterWS(from int) (rune, rune) {
	i := from
	for i < len(l.rs) && isXMLSpace(l.rs[i]) {
		i++
	}
	var a, b rune = -1, -1
	if i < len(l.rs) {
		a = l.rs[i]
	}
	if i+1 < len(l.rs) {
		b = l.rs[i+1]
	}
	return a, b
}

func (l *rlexer) ncname() string {
	start := l.pos
	if l.pos < len(l.rs) && isNameStart(l.rs[l.pos]) {
		l.pos++
		for l.pos < len(l.rs) && isNameChar(l.rs[l.pos]) {
			l.pos++
		}
	}
	return string(l.rs[start:l.pos])
}

func (l *rlexer) precedingAllowsOperator() bool {
	if len(l.toks) == 0 {
		return false
	}
	p := l.toks[len(l.toks)-1]
	switch p.kind {
	case tAt, tDblColon, tLParen, tLBrack, tComma, tOperator:
		return false
	}
	return true
}

// lex tokenises per XPath 1.0 section 3.7; ok=false on a lexical error.
func (l *rlexer) lex() bool {
	for {
		// fix the offsets of the token appended by the previous iteration
		if n := len(l.toks); n > 0 && l.toks[n-1].end == 0 {
			l.toks[n-1].start, l.toks[n-1].end = l.lastStart, l.pos
		}
		l.skipWS()
		if l.pos >= len(l.rs) {
			return true
		}
		l.lastStart = l.pos
		c := l.rs[l.pos]
		emit := func(k tokKind, text string, n int) {
			l.toks = append(l.toks, rtok{kind: k, text: text})
			l.pos += n
		}
		next := rune(-1)
		if l.pos+1 < len(l.rs) {
			next = l.rs[l.pos+1]
		}
		switch {
		case c == '(':
			emit(tLParen, "(", 1)
		case c == ')':
			emit(tRParen, ")", 1)
		case c == '[':
			emit(tLBrack, "[", 1)
		case c == ']':
			emit(tRBrack, "]", 1)
		case c == '@':
			emit(tAt, "@", 1)
		case c == ',':
			emit(tComma, ",", 1)
		case c == ':' && next == ':':
			emit(tDblColon, "::", 2)
		case c == '/' && next == '/':
			emit(tOperator, "//", 2)
		case c == '/':
			emit(tOperator, "/", 1)
		case c == '|' || c == '+' || c == '-' || c == '=':
			emit(tOperator, string(c), 1)
		case c == '!' && next == '=':
			emit(tOperator, "!=", 2)
		case c == '<' && next == '=':
			emit(tOperator, "<=", 2)
		case c == '>' && next == '=':
			emit(tOperator, ">=", 2)
		case c == '<' || c == '>':
			emit(tOperator, string(c), 1)
		case c == '*':
			if l.precedingAllowsOperator() {
				emit(tOperator, "*", 1)
			} else {
				emit(tNameTest, "*", 1)
			}
		case c == '"' || c == '\'':
			j := l.pos + 1
			for j < len(l.rs) && l.rs[j] != c {
				j++
			}
			if j >= len(l.rs) {
				return false // unterminated literal
			}
			emit(tLiteral, string(l.rs[l.pos+1:j]), j+1-l.pos)
		case c >= '0' && c <= '9' || (c == '.' && next >= '0' && next <= '9'):
			j := l.pos
			for j < len(l.rs) && l.rs[j] >= '0' && l.rs[j] <= '9' {
				j++
			}
			if j < len(l.rs) && l.rs[j] == '.' {
				j++
				for j < len(l.rs) && l.rs[j] >= '0' && l.rs[j] <= '9' {
					j++
				}
			}
			// An exponent part directly attached to the digits is not XPath 1.0
			// syntax; it lexes as a following name ("1e5" = Number Name).
			emit(tNumber, string(l.rs[l.pos:j]), j-l.pos)
		case c == '.' && next == '.':
			emit(tDotDot, "..", 2)
		case c == '.':
			emit(tDot, ".", 1)
		case c == '$':
			l.pos++
			if l.ncname() == "" {
				return false
			}
			if l.pos+1 < len(l.rs) && l.rs[l.pos] == ':' && isNameStart(l.rs[l.pos+1]) {
				l.pos++
				l.ncname()
			}
			l.toks = append(l.toks, rtok{kind: tVarRef})
		case isNameStart(c):
			name := l.ncname()
			if l.precedingAllowsOperator() {
				switch name {
				case "and", "or", "mod", "div":
					l.toks = append(l.toks, rtok{kind: tOperator, text: name})
					continue
				}
				return false // must be an OperatorName and is not
			}
			// QName / NCName:* (no whitespace allowed inside)
			prefix := ""
			local := name
			star := false
			k := l.pos
			for k < len(l.rs) && isXMLSpace(l.rs[k]) {
				k++
			}
			if k < len(l.rs) && l.rs[k] == ':' && !(k+1 < len(l.rs) && l.rs[k+1] == ':') {
				// a single colon follows (possibly after blanks)
				m := k + 1
				for m < len(l.rs) && isXMLSpace(l.rs[m]) {
					m++
				}
				followsName := m < len(l.rs) && (l.rs[m] == '*' || isNameStart(l.rs[m]))
				switch {
				case k == l.pos && m == k+1 && followsName:
					if l.rs[m] == '*' {
						prefix, star = name, true
						l.pos = m + 1
					} else {
						l.pos = m
						prefix, local = name, l.ncname()
					}
				case followsName:
					// blanks inside a QName: a QName is one token (XPath 1.0 section 3.7,
					// XML Names), ExprWhitespace may only stand between tokens
					return false
				default:
					return false // "a:" not followed by a local part
				}
			}
			if star {
				l.toks = append(l.toks, rtok{kind: tNameTest, text: "*", prefix: prefix})
				continue
			}
			a, b := l.peekAfterWS(l.pos)
			switch {
			case a == '(':
				if prefix == "" && nodeTypes[local] {
					l.toks = append(l.toks, rtok{kind: tNodeType, text: local})
				} else {
					l.toks = append(l.toks, rtok{kind: tFuncName, text: local, prefix: prefix})
				}
			case a == ':' && b == ':':
				if prefix != "" || !axisNames[local] {
					return false
				}
				l.toks = append(l.toks, rtok{kind: tAxisName, text: local})
			default:
				l.toks = append(l.toks, rtok{kind: tNameTest, text: local, prefix: prefix})
			}
		default:
			return false // stray character (including a lone ':' or '!')
		}
	}
}

// ---- parser

type rparser struct {
	toks       []rtok
	i          int
	knownPfx   func(string) bool
	unasserted bool
}

func (p *rparser) peek() rtok {
	if p.i < len(p.toks) {
		return p.toks[p.i]
	}
	return rtok{kind: tEOF}
}
func (p *rparser) isOp(s string) bool {
	t := p.peek()
	return t.kind == tOperator && t.text == s
}
func (p *rparser) next() rtok { t := p.peek(); p.i++; return t }

func (p *rparser) expr() bool { return p.binary(0) }

var precLevels = [][]string{{"or"}, {"and"}, {"=", "!="}, {"<", "<=", ">", ">="}, {"+", "-"}, {"*", "div", "mod"}}

func (p *rparser) binary(level int) bool {
	if level == len(precLevels) {
		return p.unary()
	}
	if !p.binary(level + 1) {
		return false
	}
	for {
		matched := false
		for _, op := range precLevels[level] {
			if p.isOp(op) {
				matched = true
			}
		}
		if !matched {
			return true
		}
		p.next()
		if !p.binary(level + 1) {
			return false
		}
	}
}

func (p *rparser) unary() bool {
	for p.isOp("-") {
		p.next()
	}
	return p.union()
}

func (p *rparser) union() bool {
	if !p.pathExpr() {
		return false
	}
	for p.isOp("|") {
		p.next()
		if !p.pathExpr() {
			return false
		}
	}
	return true
}

func (p *rparser) startsPrimary() bool {
	switch p.peek().kind {
	case tLParen, tLiteral, tNumber, tFuncName, tVarRef:
		return true
	}
	return false
}

func (p *rparser) pathExpr() bool {
	if p.startsPrimary() {
		// FilterExpr ('/' RelativeLocationPath)?
		isCurDeref := p.peek().kind == tFuncName && (p.peek().text == "current" || p.peek().text == "deref") && p.peek().prefix == ""
		if !p.primary() {
			return false
		}
		for p.peek().kind == tLBrack {
			if isCurDeref {
				// a predicate directly after current()/deref(): valid XPath
				// (FilterExpr Predicate) — asserted as accept.
			}
			if !p.predicate() {
				return false
			}
		}
		if p.isOp("/") {
			p.next()
			return p.relPath()
		}
		if p.isOp("//") {
			return false
		}
		return true
	}
	// LocationPath
	if p.isOp("//") {
		return false
	}
	if p.isOp("/") {
		p.next()
		if p.startsStep() {
			return p.relPath()
		}
		return true
	}
	return p.relPath()
}

func (p *rparser) startsStep() bool {
	switch p.peek().kind {
	case tNameTest, tDot, tDotDot, tAt, tAxisName, tNodeType:
		return true
	}
	return false
}

func (p *rparser) relPath() bool {
	if !p.step() {
		return false
	}
	for {
		if p.isOp("//") {
			return false
		}
		if !p.isOp("/") {
			return true
		}
		p.next()
		if !p.step() {
			return false
		}
	}
}

func (p *rparser) step() bool {
	t := p.peek()
	switch t.kind {
	case tDot, tDotDot:
		p.next()
		return true
	case tNameTest:
		p.next()
		if t.prefix != "" && !p.knownPfx(t.prefix) {
			return false
		}
		for p.peek().kind == tLBrack {
			if !p.predicate() {
				return false
			}
		}
		return true
	}
	// '@', axis names and node-type tests are XPath but not in the supported subset
	return false
}

func (p *rparser) predicate() bool {
	if p.next().kind != tLBrack {
		return false
	}
	if !p.expr() {
		return false
	}
	return p.next().kind == tRBrack
}

func (p *rparser) primary() bool {
	t := p.next()
	switch t.kind {
	case tLiteral:
		return true
	case tNumber:
		return true
	case tVarRef:
		return false
	case tLParen:
		if !p.expr() {
			return false
		}
		return p.next().kind == tRParen
	case tFuncName:
		if t.prefix != "" {
			return false
		}
		ar, ok := RegisteredArity[t.text]
		if !ok {
			return false
		}
		if p.next().kind != tLParen {
			return false
		}
		n := 0
		argStart := p.i
		if p.peek().kind != tRParen {
			for {
				if !p.expr() {
					return false
				}
				n++
				if p.peek().kind == tComma {
					p.next()
					continue
				}
				break
			}
		}
		argEnd := p.i
		if p.next().kind != tRParen {
			return false
		}
		if n != ar {
			return false
		}
		if t.text == "deref" {
			// the argument form of deref() is not specified by the property
			// beyond "a location path": anything else is unasserted
			if !isPlainLocationPath(p.toks[argStart:argEnd]) {
				p.unasserted = true
			}
		}
		return true
	}
	return false
}

// isPlainLocationPath: tokens form [current()] / steps without operators other than '/'.
func isPlainLocationPath(ts []rtok) bool {
	depth := 0
	for i, t := range ts {
		switch t.kind {
		case tLBrack:
			depth++
		case tRBrack:
			depth--
		}
		if depth > 0 {
			continue
		}
		switch t.kind {
		case tNameTest, tDot, tDotDot, tRBrack:
		case tOperator:
			if t.text != "/" {
				return false
			}
		case tFuncName:
			if !(i == 0 && (t.text == "current" || t.text == "deref")) {
				return false
			}
		case tLParen, tRParen:
			// parentheses of the leading current()/deref(...)
			if ts[0].kind != tFuncName {
				return false
			}
			if ts[0].text == "current" && i > 2 {
				return false
			}
		default:
			return false
		}
	}
	return true
}

// RecogniseExpr decides whether s is in the supported XPath subset.
func RecogniseExpr(s string, knownPfx func(string) bool) Verdict {
	// (NUL is no character of XML or XPath text, not even inside a literal)
	if s == "" || !utf8.ValidString(s) || strings.ContainsRune(s, 0) {
		return Reject
	}
	l := &rlexer{rs: []rune(s), knownPfx: knownPfx}
	if !l.lex() {
		if l.unasserted {
			return Unasserted
		}
		return Reject
	}
	if l.unasserted {
		return Unasserted
	}
	p := &rparser{toks: l.toks, knownPfx: knownPfx}
	ok := p.expr() && p.peek().kind == tEOF
	if p.unasserted {
		return Unasserted
	}
	if ok {
		return Accept
	}
	return Reject
}

// ---------------------------------------------------------------- RFC 6020 path-arg

type ptok struct {
	kind string // "/" ".." "[" "]" "=" "(" ")" "id" "current"
	text string
}

func isIdStart(c byte) bool { return c == '_' || (c >= 'a' && c <= 'z') || (c >= 'A' && c <= 'Z') }
func isIdChar(c byte) bool  { return isIdStart(c) || c == '-' || c == '.' || (c >= '0' && c <= '9') }

func xmlPrefixed(id string) bool {
	if len(id) < 3 {
		return false
	}
	a, b, c := id[0]|0x20, id[1]|0x20, id[2]|0x20
	return a == 'x' && b == 'm' && c == 'l'
}

func lexPathArg(s string, knownPfx func(string) bool) ([]ptok, Verdict) {
	var ts []ptok
	i := 0
	isWS := func(c byte) bool { return c == ' ' || c == '\t' || c == '\r' || c == '\n' }
	for i < len(s) {
		c := s[i]
		switch {
		case isWS(c):
			i++
		case c == '/' || c == '[' || c == ']' || c == '=' || c == '(' || c == ')':
			ts = append(ts, ptok{kind: string(c)})
			i++
		case c == '.':
			if i+1 < len(s) && s[i+1] == '.' {
				ts = append(ts, ptok{kind: ".."})
				i += 2
			} else {
				return nil, Reject
			}
		case isIdStart(c):
			j := i
			for j < len(s) && isIdChar(s[j]) {
				j++
			}
			id := s[i:j]
			i = j
			// blanks around the ':' of a node-identifier: unasserted
			k := i
			for k < len(s) && isWS(s[k]) {
				k++
			}
			if k < len(s) && s[k] == ':' && (k > i || (k+1 < len(s) && isWS(s[k+1]))) {
				// node-identifier = [prefix ":"] identifier has no room for blanks
				return nil, Reject
			}
			if i < len(s) && s[i] == ':' {
				if i+1 < len(s) && isIdStart(s[i+1]) {
					j = i + 1
					for j < len(s) && isIdChar(s[j]) {
						j++
					}
					pfx, local := id, s[i+1:j]
					i = j
					if xmlPrefixed(pfx) || xmlPrefixed(local) || !knownPfx(pfx) {
						return nil, Reject
					}
					ts = append(ts, ptok{kind: "id", text: local})
					continue
				}
				return nil, Reject
			}
			// "current" followed by "(" is the function
			k = i
			for k < len(s) && isWS(s[k]) {
				k++
			}
			if k < len(s) && s[k] == '(' {
				if id != "current" {
					return nil, Reject
				}
				ts = append(ts, ptok{kind: "current"})
				continue
			}
			if xmlPrefixed(id) {
				return nil, Reject
			}
			ts = append(ts, ptok{kind: "id", text: id})
		default:
			return nil, Reject
		}
	}
	return ts, Accept
}

type pparser struct {
	ts []ptok
	i  int
}

func (p *pparser) at(k string) bool { return p.i < len(p.ts) && p.ts[p.i].kind == k }
func (p *pparser) eat(k string) bool {
	if p.at(k) {
		p.i++
		return true
	}
	return false
}

func (p *pparser) predicates() bool {
	for p.at("[") {
		p.i++
		// path-equality-expr = node-identifier "=" path-key-expr
		if !p.eat("id") || !p.eat("=") {
			return false
		}
		// path-key-expr = current() "/" rel-path-keyexpr
		if !p.eat("current") || !p.eat("(") || !p.eat(")") || !p.eat("/") {
			return false
		}
		// rel-path-keyexpr = 1*(".." "/") *(node-identifier "/") node-identifier
		n := 0
		for p.at("..") {
			p.i++
			if !p.eat("/") {
				return false
			}
			n++
		}
		if n == 0 {
			return false
		}
		if !p.eat("id") {
			return false
		}
		for p.at("/") {
			p.i++
			if !p.eat("id") {
				return false
			}
		}
		if !p.eat("]") {
			return false
		}
	}
	return true
}

// absolute-path = 1*("/" (node-identifier *path-predicate))
func (p *pparser) absolutePath() bool {
	n := 0
	for p.at("/") {
		p.i++
		if !p.eat("id") {
			return false
		}
		if !p.predicates() {
			return false
		}
		n++
	}
	return n > 0
}

// RecognisePathArg decides RFC 6020 path-arg with optional whitespace between tokens.
func RecognisePathArg(s string, knownPfx func(string) bool) Verdict {
	if s == "" || !utf8.ValidString(s) || strings.ContainsRune(s, 0) {
		return Reject
	}
	ts, v := lexPathArg(s, knownPfx)
	if v != Accept {
		return v
	}
	p := &pparser{ts: ts}
	ok := false
	if p.at("/") {
		ok = p.absolutePath()
	} else {
		// relative-path = 1*(".." "/") descendant-path
		n := 0
		for p.at("..") {
			p.i++
			if !p.eat("/") {
				return Reject
			}
			n++
		}
		if n == 0 {
			return Reject
		}
		// descendant-path = node-identifier [*path-predicate absolute-path]
		if !p.eat("id") {
			return Reject
		}
		ok = true
		if p.at("[") || p.at("/") {
			hadPred := p.at("[")
			if !p.predicates() {
				return Reject
			}
			if p.at("/") {
				ok = p.absolutePath()
			} else if hadPred {
				ok = false // predicates must be followed by an absolute-path
			}
		}
	}
	if ok && p.i == len(ts) {
		return Accept
	}
	return Reject
}

// ---------------------------------------------------------------- repairs used to classify known findings

// Tok is the exported view of a reference token.
type Tok struct {
	Kind       string
	Text       string
	Start, End int
}

// LexExpr returns the reference tokens of s (ok=false on a lexical error).
func LexExpr(s string) ([]Tok, bool) {
	l := &rlexer{rs: []rune(s)}
	ok := l.lex()
	names := map[tokKind]string{tLParen: "(", tRParen: ")", tLBrack: "[", tRBrack: "]", tDot: ".", tDotDot: "..", tAt: "@",
		tComma: ",", tDblColon: "::", tNameTest: "name", tNodeType: "nodetype", tOperator: "op", tFuncName: "func",
		tAxisName: "axis", tLiteral: "lit", tNumber: "num", tVarRef: "var"}
	var out []Tok
	for _, t := range l.toks {
		out = append(out, Tok{Kind: names[t.kind], Text: t.text, Start: t.start, End: t.end})
	}
	return out, ok
}
