package xp

import (
	"strings"
	"verifharness/internal/core"
)

// ---------------------------------------------------------------- data-tree answers

type AnsKind int

const (
	AnsAbsent AnsKind = iota
	AnsLeaf
	AnsLeafList
)

// Answer is what the mock tree reports for a path: an absent node (empty
// node-set), a single leaf (its string-value) or a multi-valued leaf-list.
type Answer struct {
	Kind AnsKind
	Vals []string
}

func (a Answer) Val() Val {
	switch a.Kind {
	case AnsLeaf:
		return VNS([]string{a.Vals[0]})
	case AnsLeafList:
		return VNS(append([]string(nil), a.Vals...))
	}
	return VNS(nil)
}

// Table maps a canonical path string to an answer.
type Table map[string]Answer

// ---------------------------------------------------------------- pools

var NumTexts = []string{
	"0", "1", "2", "3", "7", "10", "0.5", "1.5", "2.5", "3.5", ".5", "5.", "0.1", "0.25", "0.75",
	"100", "255", "256", "1000000", "4294967296", "9007199254740992", "9007199254740993",
	"18446744073709551616", "123456789012345678", "100000000000000000000", "1000000000000000000000",
	"123456789012345678901234567890", "0.000001", "0.0000001", "0.00000000001", "0.0001", "0.00001",
	"1.7976931348623157", "0.12345678901234567", "12345.678", "99999999999999999999999",
	"0.3", "0.7", "1.1", "2.000000000000001", "0.49999999999999", "4.5", "1234567.5",
	// where x+0.5 is not exact: the largest double below one half, odd integers between 2^52 and 2^53,
	// halves just below 2^52
	"0.49999999999999994", "0.5000000000000001", "4503599627370497", "4503599627370495", "9007199254740991",
	"2251799813685247.5", "4503599627370495.5", "1.4999999999999998",
	// beyond the largest double: the nearest double is infinity
	"1" + strings.Repeat("0", 400), "179769313486231580000000000000" + strings.Repeat("0", 290),
}

var StrPool = []string{
	"", "a", "abc", "hello world", " x ", "  ", "\t\n", "12", " 12 ", "\n12\t", "1e3", "1E3", "+1", "0x10",
	"Infinity", "-Infinity", "Inf", "NaN", "nan", "-5", "-0", ".5", "5.", "1.5.2", "-", ".", "- 1", "--1",
	"é", "日本語", "aé日😀b", "ééé", "true", "false", "ABC", "abcabc", "ab", "bc", "b", "c",
	" 5", "5 ", " 1", "\f1", "1_0", "0b1", "0o7", "1.0e0", "12abc", "x'y", "a  b   c",
	" lead", "trail ", "日本", "本", "😀", "á", "0.1", "1.50", "007", "3.0",
	// a backslash is a character like any other in an XPath literal (there are no escapes)
	"a\\b", "a\\\\b", "\\", "C:\\", "\\n", "x\\", "\\\\",
}

var strNumericPool = []string{"1", "2", "3", "10", "2.5", "-1", "0", " 7 ", "abc", ""}

// ---------------------------------------------------------------- special number atoms

// SpecialNums are expression forms producing values that have no literal
// syntax.  (With node-level checking the parent is checked against the value
// the implementation actually produced for the child, so a defect in how
// these forms are evaluated is attributed to the form itself.)
func SpecialNums() []*Node {
	return []*Node{
		Fn("number", Lit("x")),                 // NaN
		Neg(Num("0")),                          // -0
		Bin("div", Num("1"), Num("0")),         // +Inf
		Bin("div", Neg(Num("1")), Num("0")),    // -Inf
		Bin("div", Num("0"), Num("0")),         // NaN by IEEE
		Neg(Num("0.5")), Neg(Num("1.5")), Neg(Num("2.5")), Neg(Num("1")), Neg(Num("0.25")),
		Neg(Num("1000000000000000000000")), Neg(Num("0.0000001")),
		Neg(Num("0.49999999999999994")), Neg(Num("4503599627370497")), Neg(Num("9007199254740991")), Neg(Num("2251799813685247.5")),
	}
}

// ---------------------------------------------------------------- scalar generator

type GenCfg struct {
	MaxDepth  int
	LeafNames []string // names of path operands available (single-step relative paths)
}

var binByType = map[Type][]string{
	TNum:  {"+", "-", "*", "div", "mod"},
	TBool: {"or", "and", "=", "!=", "<", "<=", ">", ">="},
}

var fnByType = map[Type][]string{
	TNum:  {"number", "floor", "ceiling", "round", "string-length", "last", "position"},
	TStr:  {"string", "concat", "substring-before", "substring-after", "substring", "normalize-space", "translate"},
	TBool: {"boolean", "not", "true", "false", "starts-with", "contains"},
}

func anyType(r *core.Rng, cfg *GenCfg) Type {
	n := 3
	if len(cfg.LeafNames) > 0 {
		n = 4
	}
	return Type(r.Intn(n))
}

// wantOrAny: the declared type most of the time, any other type otherwise
// (XPath converts implicitly).
func wantOrAny(r *core.Rng, t Type, cfg *GenCfg) Type {
	if r.Chance(7, 10) {
		return t
	}
	return anyType(r, cfg)
}

func GenAtom(r *core.Rng, t Type, cfg *GenCfg) *Node {
	switch t {
	case TNum:
		if r.Chance(1, 5) {
			return core.Pick(r, SpecialNums())
		}
		return Num(core.Pick(r, NumTexts))
	case TStr:
		return Lit(core.Pick(r, StrPool))
	case TBool:
		if r.Bool() {
			return Fn("true")
		}
		return Fn("false")
	default:
		if len(cfg.LeafNames) == 0 {
			return Lit(core.Pick(r, StrPool))
		}
		return RelName(core.Pick(r, cfg.LeafNames))
	}
}

// GenExpr generates a type-correct expression whose static type is t.
func GenExpr(r *core.Rng, t Type, depth int, cfg *GenCfg) *Node {
	if depth <= 0 || r.Chance(1, 6) || t == TNS {
		return GenAtom(r, t, cfg)
	}
	// operators or functions
	if t != TStr && r.Chance(1, 2) {
		op := core.Pick(r, binByType[t])
		var ta, tb Type
		switch op {
		case "or", "and":
			ta, tb = wantOrAny(r, TBool, cfg), wantOrAny(r, TBool, cfg)
		case "+", "-", "*", "div", "mod":
			ta, tb = wantOrAny(r, TNum, cfg), wantOrAny(r, TNum, cfg)
		default:
			ta, tb = anyType(r, cfg), anyType(r, cfg)
		}
		return Bin(op, GenExpr(r, ta, depth-1, cfg), GenExpr(r, tb, depth-1, cfg))
	}
	if t == TNum && r.Chance(1, 8) {
		return Neg(GenExpr(r, wantOrAny(r, TNum, cfg), depth-1, cfg))
	}
	fn := core.Pick(r, fnByType[t])
	var args []*Node
	for _, at := range FuncArgs[fn] {
		var want Type
		if at < 0 {
			want = anyType(r, cfg)
		} else {
			want = wantOrAny(r, Type(at), cfg)
		}
		args = append(args, GenExpr(r, want, depth-1, cfg))
	}
	return Fn(fn, args...)
}
